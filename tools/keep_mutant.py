#!/usr/bin/env python3
"""tools/keep_mutant.py <worktree> <name> <property> <caught-by (comma sep)> <keys seen> -- <needs text>
Copies MUTANT/{patch.diff,demo.cpp,build.sh,README.md} to /verif/seeded/<name>/ and writes meta.json."""
import sys, os, shutil, json
wt, name, prop, caught, keys = sys.argv[1:6]
needs = " ".join(sys.argv[7:])
dst = os.path.join("/verif/seeded", name)
os.makedirs(dst, exist_ok=True)
for f in ("patch.diff", "demo.cpp", "build.sh", "README.md"):
    shutil.copy(os.path.join(wt, "MUTANT", f), os.path.join(dst, f))
meta = dict(breaks_property=prop, origin="independent sub-agent given only the property text and a scratch worktree",
            needs_to_manifest=needs,
            confirmed=dict(how="tools/confirm_mutant.sh in the scratch worktree: patch applies to a clean checkout, library builds, `make test` with the change, demo built by build.sh with and without the change",
                           tests_with_change="24 Tests: 24 passes, 0 failures", demo_exit_original=0, demo_exit_with_change=1),
            checks_run="VERIF_REPO=<scratch worktree> VERIF_OUT=/tmp/mutout ./check <id> --tier quick (tools/try_mutant.sh)",
            caught_by=[c for c in caught.split(",") if c], violation_keys=keys.split(";"))
json.dump(meta, open(os.path.join(dst, "meta.json"), "w"), indent=1)
print("kept", dst)
