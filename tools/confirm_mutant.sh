#!/bin/sh
# usage: tools/confirm_mutant.sh <worktree with MUTANT/ and the change applied>
# Confirms: patch applies to a clean checkout, library builds, 24 tests pass with the change,
# the demonstration fails with the change and passes without it.
WT=$1
cd $WT || exit 2
git apply -R MUTANT/patch.diff 2>/dev/null   # to clean state (ignore if not applied)
if [ -n "$(git status --short | grep -v '^??')" ]; then echo "CONFIRM $WT: worktree not clean after reverting the patch"; git status --short | grep -v '^??'; exit 1; fi
git apply --check MUTANT/patch.diff || { echo "CONFIRM $WT: patch does not apply"; exit 1; }
touch src/*.cpp; make -j8 >/dev/null 2>&1 || { echo "CONFIRM $WT: original does not build"; exit 1; }
( sh MUTANT/build.sh >MUTANT/confirm_orig.log 2>&1 ); ORIG=$?
git apply MUTANT/patch.diff
touch src/*.cpp; make -j8 >/dev/null 2>&1 || { echo "CONFIRM $WT: mutant does not build"; exit 1; }
TESTS=$(make test 2>&1 | tail -1)
( sh MUTANT/build.sh >MUTANT/confirm_mut.log 2>&1 ); MUT=$?
echo "CONFIRM $WT: tests-with-change='$TESTS' demo-original-exit=$ORIG demo-with-change-exit=$MUT"
