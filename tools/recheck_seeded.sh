#!/bin/sh
# Re-applies every kept seeded fault (seeded/<name>/patch.diff) to a scratch worktree of /repo and runs the checks
# that meta.json says catch it; prints one line per (fault, check).  A line with OK means the framework has lost
# the ability to see that fault.  Nothing is applied to /repo itself.  usage: tools/recheck_seeded.sh [name...]
cd /verif
WT=/tmp/wt/recheck
mkdir -p /tmp/wt
git -C /repo worktree remove --force $WT 2>/dev/null
git -C /repo worktree add -q --detach $WT HEAD || exit 2
cp /repo/include/SQuIDS/version.h $WT/include/SQuIDS/ 2>/dev/null
NAMES="$*"; [ -z "$NAMES" ] && NAMES=$(ls seeded | grep -v '^_')
for n in $NAMES; do
  if ! git -C $WT apply /verif/seeded/$n/patch.diff 2>/dev/null; then echo "SEEDED $n: patch no longer applies to the current tree"; git -C $WT checkout -q -- . ; git -C $WT reset -q --hard; continue; fi
  for c in $(python3 -c "import json;print(' '.join(json.load(open('seeded/$n/meta.json'))['caught_by']))"); do
    res=$(VERIF_REPO=$WT VERIF_OUT=/tmp/mutout ./check $c 2>&1 | grep -E "^(OK|FAIL|INCONCLUSIVE)" | cut -c1-60)
    echo "SEEDED $n [$c]: $res"
  done
  git -C $WT reset -q --hard; git -C $WT checkout -q -- .
done
git -C /repo worktree remove --force $WT; git -C /repo worktree prune
