#!/bin/sh
# Like recheck_seeded.sh, but runs only ONE check per fault: the first entry of meta.json's caught_by that is served by
# a cheap harness (everything but the life harness) when there is one.  usage: tools/recheck_owner.sh name...
cd /verif
WT=/tmp/wt/recheck
mkdir -p /tmp/wt
git -C /repo worktree remove --force $WT 2>/dev/null
git -C /repo worktree add -q --detach $WT HEAD || exit 2
cp /repo/include/SQuIDS/version.h $WT/include/SQuIDS/ 2>/dev/null
for n in "$@"; do
  if ! git -C $WT apply /verif/seeded/$n/patch.diff 2>/dev/null; then echo "SEEDED $n: patch no longer applies to the current tree"; git -C $WT reset -q --hard; continue; fi
  c=$(python3 -c "
import json
cb=json.load(open('seeded/$n/meta.json'))['caught_by']
cheap=[x for x in cb if x not in ('C08','C09','C14','C15','C16')]
print((cheap or cb)[0])")
  res=$(VERIF_REPO=$WT VERIF_OUT=/tmp/mutout ./check $c 2>&1 | grep -E "^(OK|FAIL|INCONCLUSIVE)" | cut -c1-60)
  echo "SEEDED $n [$c]: $res"
  git -C $WT reset -q --hard
done
git -C /repo worktree remove --force $WT; git -C /repo worktree prune
