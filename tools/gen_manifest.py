#!/usr/bin/env python3
"""Regenerates /verif/MANIFEST.json from vlib/props.py (claimed checks) and properties.jsonl."""
import json, os, sys, subprocess
HERE = os.path.dirname(os.path.dirname(os.path.abspath(__file__)))
sys.path.insert(0, HERE)
from vlib import props as P

ids = [json.loads(l)["id"] for l in open(os.path.join(HERE, "properties.jsonl"))]
old = json.load(open(os.path.join(HERE, "MANIFEST.json")))
hooks = subprocess.check_output(["git", "-C", "/repo", "log", "--format=%h %s"]).decode().splitlines()
hook_commits = [l.split()[0] for l in hooks if l.split(" ", 1)[1].startswith(("verif hooks", "verification hook"))][::-1]
checks = []
for pid in ids:
    if pid not in P.PROPS:
        continue
    cfg = P.PROPS[pid]
    checks.append(dict(
        property_id=pid,
        quick_cmd="./check %s --tier quick" % pid,
        thorough_cmd="./check %s --tier thorough" % pid,
        evidence_file="/verif/evidence/%s.json" % pid,
        replay_cmd_template="./check %s --replay {path}" % pid,
        engine=cfg["harness"],
        level_claimed=dict(category=cfg["level"], text=cfg["level_text"], design_ref=cfg.get("design_ref", "DESIGN.md")),
        level_note=cfg["level_note"],
        technique=cfg["technique"],
    ))
na = [dict(property_id=p, reason=P.NOT_APPLICABLE.get(p, "check not built yet (work in progress; see DESIGN.md for the plan)")) for p in ids if p not in P.PROPS]
engines = {}
for pid, cfg in P.PROPS.items():
    e = engines.setdefault(cfg["harness"], dict(name=cfg["harness"], path="/verif/harness/" + cfg["sources"][0].split("/")[0], serves_properties=[], kind_free_text=P.ENGINE_TEXT.get(cfg["harness"], "")))
    e["serves_properties"].append(pid)
m = dict(version=1, setup_cmd="./check --setup",
         hooks=dict(guard="SQUIDS_VERIF",
                    enable="every check compiles /repo/src/*.cpp and its harness itself with -DSQUIDS_VERIF from /repo's working tree (vlib/build.py); hooks are function pointers that are null unless a harness installs them",
                    baseline_off_cmd=old["hooks"]["baseline_off_cmd"], source_commits=hook_commits, add_only=True),
         engines=sorted(engines.values(), key=lambda e: e["name"]),
         checks=checks,
         notes=P.NOTES,
         not_applicable=na)
json.dump(m, open(os.path.join(HERE, "MANIFEST.json"), "w"), indent=1)
print("claimed:", [c["property_id"] for c in checks], "not applicable:", [n["property_id"] for n in na])
