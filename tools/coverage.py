#!/usr/bin/env python3
"""Which lines of the library do the quick workloads execute?

Not a check: a measurement that tells the reader (and the author) which library code the
monitors can say nothing about.  Builds the library and every harness with gcov
instrumentation in a scratch directory outside /verif (removed afterwards), runs each
property's workload once at a reduced scale, merges the per-translation-unit counters
per library source line and writes coverage/summary.txt + coverage/unreached.txt.

usage: tools/coverage.py [--scale 0.1] [--keep]
"""
import gzip, json, os, shutil, subprocess, sys, glob, collections

VERIF = os.path.dirname(os.path.dirname(os.path.abspath(__file__)))
sys.path.insert(0, VERIF)
from vlib import props, build  # noqa

REPO = build.REPO
SCR = "/tmp/verif-cov"
FLAGS = ["-std=c++11", "-DSQUIDS_VERIF", "-Wno-abi", "-O0", "-g0", "--coverage", "-I" + os.path.join(REPO, "include"), "-I" + os.path.join(VERIF, "harness")]


def sh(cmd, **kw):
    r = subprocess.run(cmd, stdout=subprocess.PIPE, stderr=subprocess.STDOUT, text=True, **kw)
    return r.returncode, r.stdout


def compile_all(srcs, odir, extra=()):
    os.makedirs(odir, exist_ok=True)
    procs = []
    objs = []
    for s in srcs:
        o = os.path.join(odir, os.path.basename(s).replace(".cpp", ".o"))
        objs.append(o)
        procs.append((s, subprocess.Popen(["g++"] + FLAGS + list(extra) + ["-c", s, "-o", o], stdout=subprocess.PIPE, stderr=subprocess.STDOUT, text=True)))
    for s, p in procs:
        out = p.communicate()[0]
        if p.returncode:
            sys.exit("compile failed %s\n%s" % (s, out[-3000:]))
    return objs


def main():
    scale = 0.1
    if "--scale" in sys.argv:
        scale = float(sys.argv[sys.argv.index("--scale") + 1])
    shutil.rmtree(SCR, ignore_errors=True)
    os.makedirs(SCR)
    gi = build.gen_include_dir()
    extra = ["-I" + gi] if gi else []
    lib = compile_all([os.path.join(REPO, "src", s) for s in build.LIB_SOURCES], os.path.join(SCR, "lib"), extra)
    harnesses = {}
    for pid, p in props.PROPS.items():
        harnesses.setdefault(p["harness"], (p["sources"], p.get("with_lib", True), []))[2].append(pid)
    per_prop_hits = {}
    for h, (srcs, with_lib, pids) in sorted(harnesses.items()):
        od = os.path.join(SCR, h)
        objs = compile_all([os.path.join(VERIF, "harness", s) for s in srcs], od, extra)
        binp = os.path.join(od, h)
        rc, out = sh(["g++", "--coverage"] + objs + (lib if with_lib else []) + ["-o", binp] + build.LIBS)
        if rc:
            sys.exit("link failed %s\n%s" % (h, out[-3000:]))
        for pid in pids:
            rc, out = sh([binp, "--prop", pid, "--tier", "quick", "--seed", "1", "--shard", "0/1", "--scale", str(scale), "--variant", "cov",
                          "--out", os.path.join(od, pid + ".json"), "--progress", os.path.join(od, pid + ".prog")], timeout=3600)
            print("ran %s/%s rc=%d" % (h, pid, rc), flush=True)
    # gcov every object directory
    lines = collections.defaultdict(dict)   # file -> line -> count
    funcs = collections.defaultdict(dict)
    for od in sorted(glob.glob(os.path.join(SCR, "*"))):
        gcnos = glob.glob(os.path.join(od, "*.gcno"))
        if not gcnos:
            continue
        rc, out = sh(["gcov", "--json-format", "--stdout"] + gcnos, cwd=od)
        dec = json.JSONDecoder()
        pos = 0
        while pos < len(out):
            while pos < len(out) and out[pos] in " \n\r\t":
                pos += 1
            if pos >= len(out) or out[pos] != "{":
                break
            doc, pos = dec.raw_decode(out, pos)
            for f in doc.get("files", []):
                fn = os.path.normpath(os.path.join(od, f["file"])) if not os.path.isabs(f["file"]) else os.path.normpath(f["file"])
                if not fn.startswith(REPO + "/"):
                    continue
                for ln in f["lines"]:
                    d = lines[fn]
                    d[ln["line_number"]] = d.get(ln["line_number"], 0) + ln["count"]
                for fu in f.get("functions", []):
                    k = (fu["demangled_name"], fu["start_line"])
                    funcs[fn][k] = funcs[fn].get(k, 0) + fu["execution_count"]
    outd = os.path.join(VERIF, "coverage")
    os.makedirs(outd, exist_ok=True)
    with open(os.path.join(outd, "summary.txt"), "w") as s, open(os.path.join(outd, "unreached.txt"), "w") as u:
        s.write("library lines executed by the quick workloads (scale %.2f, one seed), gcov -O0 build of the current tree\n\n" % scale)
        tot = hit = 0
        for fn in sorted(lines):
            d = lines[fn]
            n = len(d)
            h = sum(1 for c in d.values() if c > 0)
            tot += n
            hit += h
            s.write("%-50s %5d / %5d lines  %5.1f%%\n" % (os.path.relpath(fn, REPO), h, n, 100.0 * h / max(n, 1)))
            src = open(fn, errors="replace").read().split("\n")
            miss = sorted(l for l, c in d.items() if c == 0)
            if miss:
                u.write("== %s\n" % os.path.relpath(fn, REPO))
                for l in miss:
                    u.write("%5d: %s\n" % (l, src[l - 1] if l - 1 < len(src) else ""))
                u.write("\n")
        s.write("\n%-50s %5d / %5d lines  %5.1f%%\n" % ("total", hit, tot, 100.0 * hit / max(tot, 1)))
    print(open(os.path.join(outd, "summary.txt")).read())
    if "--keep" not in sys.argv:
        shutil.rmtree(SCR, ignore_errors=True)


if __name__ == "__main__":
    main()
