#!/bin/sh
# usage: tools/try_mutant.sh <scratch worktree of the repository with a seeded fault applied> <property>...
# Runs the quick checks against the scratch tree (VERIF_REPO) without touching /repo or the committed evidence.
WT=$1; shift
for p in "$@"; do
  VERIF_REPO=$WT VERIF_OUT=/tmp/mutout ./check $p 2>&1 | grep -E "^(OK|FAIL|INCONCLUSIVE|VIOLATION|KNOWN)|key=" | cut -c1-220
done
