#!/bin/sh
# runs the thorough tier of every check once (used under `vp run`); prints one line per property
for p in C13 C01 C02 C03 C06 C11 C12 C07 C17 C05 C14 C16 C19 C09 C08 C15 C04 C10 C18; do
  /usr/bin/time -f "%e s" ./check $p --tier thorough 2>&1 | grep -E "^(OK|FAIL|INCONCLUSIVE|VIOLATION|KNOWN)|key=| s$" | cut -c1-250
done
