// h_cache: C19 - the shared block cache hands every cached block to at most one taker
//
// Real threads run the real cache code; a cooperative scheduler lets exactly one of them run at a
// time and transfers control only at the schedule points the hook provides (before every atomic
// load / compare-and-swap, before the payload write of insert and before the payload read of get).
// Schedules are enumerated depth first with a pre-emption bound, or drawn at random (PCT).
#include <SQuIDS/detail/VerifHooks.h>
#include "cache/icache.h"
#include "common/vh.h"
#include <thread>
#include <mutex>
#include <condition_variable>
#include <atomic>
#include <set>
#include <map>
#include <memory>
#include <sched.h>
#include <algorithm>
#include <functional>

namespace {
typedef std::vector<int> Prog;  // 1 = insert, 0 = fetch

struct Sched {
  std::mutex m; std::condition_variable cv;
  int cur = -1, n = 0;
  std::vector<char> alive;
  std::vector<uint8_t> trace;
  std::vector<uint8_t> prefix; size_t pos = 0;
  int bound = 2, preempts = 0;
  long steps = 0, budget = 100000;
  bool freerun = false;
  std::vector<std::vector<uint8_t>> alts;
  // scripted mode: a controller decides who runs next (thread at a point = self, -1 at the start)
  std::function<int(int)> script;
  // PCT mode
  bool pct = false; std::vector<int> prio; std::vector<long> change_at; vh::Rng* rng = nullptr;

  int choose(int self) {
    std::vector<int> en;
    for (int i = 0; i < n; i++) if (alive[i]) en.push_back(i);
    if (en.empty()) return -1;
    int pick;
    if (script) {
      pick = script(self);
      if (pick < 0 || pick >= n || !alive[pick]) pick = en[0];
      steps++;
      return pick;
    }
    if (pct) {
      for (long cp : change_at) if (cp == steps && self >= 0) prio[self] = -(int)steps;  // demote the running thread
      pick = en[0];
      for (int e : en) if (prio[e] > prio[pick]) pick = e;
      trace.push_back((uint8_t)pick); steps++;
      return pick;
    }
    if (pos < prefix.size()) pick = prefix[pos];
    else pick = (self >= 0 && alive[self]) ? self : en[0];
    std::vector<uint8_t> a;
    if (pos >= prefix.size())
      for (int e : en) if (e != pick) { bool isPre = (self >= 0 && alive[self] && e != self); if (!isPre || preempts < bound) a.push_back((uint8_t)e); }
    alts.push_back(a);
    if (self >= 0 && alive[self] && pick != self) preempts++;
    trace.push_back((uint8_t)pick); pos++; steps++;
    return pick;
  }
  void point(int self) {
    std::unique_lock<std::mutex> l(m);
    if (freerun) return;
    if (steps > budget) { freerun = true; cur = -2; cv.notify_all(); return; }
    int nx = choose(self);
    if (nx != self) { cur = nx; cv.notify_all(); cv.wait(l, [&] { return cur == self || freerun; }); }
  }
  void finish(int self) {
    std::unique_lock<std::mutex> l(m);
    alive[self] = false;
    if (freerun) return;
    int nx = choose(self);
    cur = nx; cv.notify_all();
  }
  void start_wait(int self) { std::unique_lock<std::mutex> l(m); cv.wait(l, [&] { return cur == self || freerun; }); }
};
Sched* S = nullptr;
thread_local int tid = -1;
thread_local int cas_points_in_op = 0;
std::atomic<long> yield_every{0};
thread_local uint64_t yield_rng = 88172645463325252ULL;
int lastpt[8] = {0, 0, 0, 0, 0, 0, 0, 0};   // the schedule point each scheduled thread is waiting at
void hook(int id) {
  if (id == 3 || id == 5) cas_points_in_op++;
  if (tid >= 0 && tid < 8) lastpt[tid] = id;
  if (S && tid >= 0) { S->point(tid); return; }
  long ye = yield_every.load(std::memory_order_relaxed);
  if (ye > 0) {  // stress mode: random yields at the schedule points
    yield_rng ^= yield_rng << 13; yield_rng ^= yield_rng >> 7; yield_rng ^= yield_rng << 17;
    if ((long)(yield_rng % (uint64_t)ye) == 0) sched_yield();
  }
}

struct History {
  std::vector<std::vector<uint64_t>> got, ins, fail;
  std::vector<uint64_t> prefilled, drained;
  int max_cas_points = 0;
};
// conservation over the client-side history plus the final drain
std::string judge(const History& h) {
  std::multiset<uint64_t> G, D; std::set<uint64_t> I, F;
  for (auto& v : h.got) for (auto x : v) G.insert(x);
  for (auto& v : h.ins) for (auto x : v) I.insert(x);
  for (auto x : h.prefilled) I.insert(x);
  for (auto& v : h.fail) for (auto x : v) F.insert(x);
  for (auto x : h.drained) D.insert(x);
  for (auto x : G) { if (F.count(x)) return "a value whose insert was refused was handed out"; if (!I.count(x)) return "a fetch returned a value that was never inserted"; if (G.count(x) > 1) return "the same cached value was handed to two takers"; }
  for (auto x : D) { if (F.count(x)) return "a value whose insert was refused is in the cache"; if (!I.count(x)) return "the cache holds a value that was never inserted"; if (G.count(x)) return "a value was handed out and is still in the cache"; if (D.count(x) > 1) return "the cache holds the same value twice"; }
  for (auto x : I) if (!G.count(x) && !D.count(x)) return "an inserted value was lost (neither fetched nor in the cache)";
  return "";
}
std::string progstr(const std::vector<Prog>& ps, int cap, int prefill) {
  std::string s = vh::fmt("capacity=%d prefill=%d threads=%zu programs=", cap, prefill, ps.size());
  for (size_t t = 0; t < ps.size(); t++) { s += t ? "|" : ""; for (int op : ps[t]) s += op ? 'I' : 'F'; }
  return s;
}
std::string tracestr(const std::vector<uint8_t>& t) { std::string s; for (auto x : t) s += (char)('0' + x); return s; }

// one execution under the scheduler
History run_once(const std::vector<Prog>& progs, int cap, int prefill, Sched& s) {
  std::unique_ptr<ICache> c(make_shared_cache(cap));
  History h; int n = (int)progs.size();
  h.got.resize(n); h.ins.resize(n); h.fail.resize(n);
  for (int k = 0; k < prefill; k++) { uint64_t id = (uint64_t(99) << 32) | (uint64_t)(k + 1); if (c->insert(id)) h.prefilled.push_back(id); }
  s.n = n; s.alive.assign(n, 1);
  S = &s;
  std::vector<int> maxcas(n, 0);
  std::vector<std::thread> th;
  for (int t = 0; t < n; t++)
    th.emplace_back([&, t] {
      tid = t; s.start_wait(t);
      uint64_t ctr = 0;
      for (int op : progs[t]) {
        cas_points_in_op = 0;
        if (op) { uint64_t id = (uint64_t(t + 1) << 32) | (++ctr); if (c->insert(id)) h.ins[t].push_back(id); else h.fail[t].push_back(id); }
        else { uint64_t v = c->get(); if (v) h.got[t].push_back(v); }
        if (cas_points_in_op > maxcas[t]) maxcas[t] = cas_points_in_op;
      }
      s.finish(t); tid = -1;
    });
  { std::unique_lock<std::mutex> l(s.m); int first = s.choose(-1); s.cur = first; s.cv.notify_all(); }
  for (auto& t : th) t.join();
  S = nullptr;
  for (int t = 0; t < n; t++) h.max_cas_points = std::max(h.max_cas_points, maxcas[t]);
  for (;;) { uint64_t v = c->get(); if (!v) break; h.drained.push_back(v); if (h.drained.size() > 1000) break; }
  return h;
}

// ---- recurrence hunt: the classic failure of a versioned lock-free stack.  A victim is stalled right before the
// compare-and-swap of its pop (it has read the head {counter,index} and the successor of that record); two helper
// threads then rearrange the list until the same record is on top again with ANOTHER successor, and one of them keeps
// cycling fetch+insert (which restores the shape and advances the version) until the raw head word equals the one
// the victim read, or a budget of cycles is spent.  If the head recurs the victim is resumed: its stale compare-and-
// swap succeeds and the history shows what that does.  A head whose version cannot recur within the budget is the
// expected outcome (counted); what is judged is always the client-side history.
struct HuntResult { bool shape_reached = false, head_recurred = false; long cycles = 0; std::string why; std::string note; };
HuntResult hunt_once(vh::Rng& r, int cap, int prefill, bool victim_inserts, long cycle_budget) {
  HuntResult res;
  std::unique_ptr<ICache> c(make_shared_cache(cap));
  History h; const int n = 3;
  h.got.resize(n); h.ins.resize(n); h.fail.resize(n);
  for (int k = 0; k < prefill; k++) { uint64_t id = (uint64_t(99) << 32) | (uint64_t)(k + 1); if (c->insert(id)) h.prefilled.push_back(id); }
  const int L = victim_inserts ? 1 : 0;   // the list the victim pops from
  Sched s; s.n = n; s.alive.assign(n, 1); s.budget = 2000000000L;
  enum Phase { VICTIM_RUN, TAIL, NEUTRAL, RESUME, FINISH } phase = VICTIM_RUN;
  unsigned long long c0 = 0, i0 = 0, n0 = 0;
  long tail_ops = 0; int runner = 1;
  for (int k = 0; k < 8; k++) lastpt[k] = 0;
  auto shape = [&]() { unsigned long long cc, ii; c->head(L, cc, ii); return ii == i0 && i0 != (unsigned long long)cap && c->next(i0) != n0; };
  auto recurred = [&]() { unsigned long long cc, ii; c->head(L, cc, ii); return ii == i0 && cc == c0 && c->next(i0) != n0; };
  s.script = [&](int self) -> int {
    switch (phase) {
      case VICTIM_RUN:
        if (self == 0 && lastpt[0] == 3) {   // the victim has read head and successor and is about to compare-and-swap
          c->head(L, c0, i0); n0 = c->next(i0);
          phase = TAIL; return 1 + (int)r.pick(2);
        }
        return s.alive[0] ? 0 : 1;
      case TAIL:
        if (self >= 1 && s.alive[self] && !r.coin(0.3)) return self;
        return 1 + (int)r.pick(2);
      case NEUTRAL: return 1;
      case RESUME: return s.alive[0] ? 0 : 1;
      default: for (int t = 0; t < n; t++) if (s.alive[t]) return t; return -1;
    }
  };
  // what a helper does next: 1 insert, 0 fetch, -1 stop, -2 hand over to the scheduler and ask again
  int neutral_step = 0;
  auto next_op = [&](int t) -> int {
    if (phase == FINISH) return -1;
    if (phase == VICTIM_RUN) return -2;
    if (phase == TAIL) {
      if (t == 1 && shape()) { res.shape_reached = true; phase = NEUTRAL; neutral_step = 0; }
      else { if (++tail_ops > 60) { phase = FINISH; return -1; } return r.coin(0.5); }
    }
    if (phase == NEUTRAL) {
      if (t != 1) return -2;
      if (neutral_step == 0) {
        if (!shape()) { phase = TAIL; return r.coin(0.5); }       // the other helper's stalled operation got in the way
        if (recurred()) { res.head_recurred = true; phase = RESUME; return -2; }
        if (++res.cycles > cycle_budget) { phase = FINISH; return -1; }
      }
      // fetch then insert when the data list is not empty, insert then fetch otherwise: either restores both lists
      unsigned long long cc, ii; c->head(0, cc, ii);
      static thread_local int first = 0;
      if (neutral_step == 0) { first = (ii != (unsigned long long)cap) ? 0 : 1; neutral_step = 1; return first; }
      neutral_step = 0; return 1 - first;
    }
    if (phase == RESUME) { if (!s.alive[0]) { phase = FINISH; return -1; } return -2; }
    return -1;
  };
  S = &s;
  std::vector<std::thread> th;
  for (int t = 0; t < n; t++)
    th.emplace_back([&, t] {
      tid = t; s.start_wait(t);
      uint64_t ctr = 0;
      if (t == 0) {
        if (victim_inserts) { uint64_t id = (uint64_t(1) << 32) | (++ctr); if (c->insert(id)) h.ins[0].push_back(id); else h.fail[0].push_back(id); }
        else { uint64_t v = c->get(); if (v) h.got[0].push_back(v); }
      } else {
        for (;;) {
          int op = next_op(t);
          if (op == -1) break;
          if (op == -2) { lastpt[t] = 0; s.point(t); if (s.freerun) break; continue; }
          if (op) { uint64_t id = (uint64_t(t + 1) << 32) | (++ctr); if (c->insert(id)) h.ins[t].push_back(id); else h.fail[t].push_back(id); }
          else { uint64_t v = c->get(); if (v) h.got[t].push_back(v); }
        }
      }
      s.finish(t); tid = -1;
    });
  { std::unique_lock<std::mutex> l(s.m); int first = s.choose(-1); s.cur = first; s.cv.notify_all(); }
  for (auto& t : th) t.join();
  S = nullptr;
  for (;;) { uint64_t v = c->get(); if (!v) break; h.drained.push_back(v); if (h.drained.size() > 1000) break; }
  res.why = judge(h);
  res.note = vh::fmt("victim %s stalled before the compare-and-swap of its pop having read head{counter=%llu,index=%llu} successor=%llu; %ld helper operations, %ld restoring cycles",
                     victim_inserts ? "insert" : "fetch", c0, i0, n0, tail_ops, res.cycles);
  if (s.freerun) res.why = "step budget exceeded";
  return res;
}

void all_programs(int maxlen, std::vector<Prog>& out) {
  for (int len = 1; len <= maxlen; len++) for (int bits = 0; bits < (1 << len); bits++) { Prog p; for (int k = 0; k < len; k++) p.push_back((bits >> k) & 1); out.push_back(p); }
}

// bounded LIFO pool
bool sequential_check(vh::Ctx& c, const char* variant, ICache* (*make)(int), int cap, int len, uint32_t bits) {
  std::unique_ptr<ICache> ca(make(cap));
  std::vector<uint64_t> model; uint64_t ctr = 0;
  std::string seq;
  for (int k = 0; k < len; k++) {
    bool ins = (bits >> k) & 1; seq += ins ? 'I' : 'F';
    if (ins) {
      uint64_t id = ++ctr; bool ok = ca->insert(id); bool want = (int)model.size() < cap;
      if (ok != want) { c.violation(vh::fmt("C19:sequential:%s:insert-result", variant), vh::fmt("capacity %d sequence %s: insert %s with %zu cached", cap, seq.c_str(), ok ? "succeeded" : "failed", model.size())); return false; }
      if (ok) model.push_back(id);
    } else {
      uint64_t v = ca->get(); uint64_t want = model.empty() ? 0 : model.back();
      if (v != want) { c.violation(vh::fmt("C19:sequential:%s:fetch-result", variant), vh::fmt("capacity %d sequence %s: fetch returned %llu, the most recent unfetched insert is %llu", cap, seq.c_str(), (unsigned long long)v, (unsigned long long)want)); return false; }
      if (!model.empty()) model.pop_back();
    }
  }
  // drain: exactly the remaining values, most recent first
  while (!model.empty()) { uint64_t v = ca->get(); if (v != model.back()) { c.violation(vh::fmt("C19:sequential:%s:drain", variant), vh::fmt("capacity %d sequence %s", cap, seq.c_str())); return false; } model.pop_back(); }
  if (ca->get() != 0) { c.violation(vh::fmt("C19:sequential:%s:drain-extra", variant), vh::fmt("capacity %d sequence %s", cap, seq.c_str())); return false; }
  return true;
}
}  // namespace

int main(int argc, char** argv) {
  vh::Args args = vh::parse_args(argc, argv);
  vh::Ctx c(args);
  if (args.prop != "C19") { fprintf(stderr, "h_cache serves C19 only\n"); return 2; }
  squids::verif::point_hook() = hook;
  bool thorough = c.thorough();
  // thorough: one more operation per thread for two threads and one more pre-emption everywhere; the depth-first
  // search of a configuration is cut short (and counted as such) after exec_cap executions - about 1000 executions/s
  // per process is what the condition-variable hand-over between real threads allows
  int maxops2 = thorough ? 4 : 3, maxops3 = 2, bound = thorough ? 3 : 2;
  int maxcap = 3;
  long exec_cap = thorough ? 4000 : 30000;  // executions per configuration before the DFS is cut short

  // ---- configurations: (programs, capacity, prefill)
  struct Config { std::vector<Prog> progs; int cap, prefill; };
  std::vector<Config> cfgs;
  std::vector<Prog> p2, p3;
  all_programs(maxops2, p2); all_programs(maxops3, p3);
  for (int cap = 1; cap <= maxcap; cap++)
    for (int prefill : {0, cap})
      for (size_t a = 0; a < p2.size(); a++) for (size_t b = a; b < p2.size(); b++) cfgs.push_back({{p2[a], p2[b]}, cap, prefill});
  for (int cap = 1; cap <= std::min(maxcap, 2); cap++)
    for (int prefill : {0, cap})
      for (size_t a = 0; a < p3.size(); a++) for (size_t b = a; b < p3.size(); b++) for (size_t d = b; d < p3.size(); d++) cfgs.push_back({{p3[a], p3[b], p3[d]}, cap, prefill});
  long NC = (long)cfgs.size();
  long NSEQ = 4 * 2;            // sequential enumeration blocks: capacity x variant
  long NPCT = c.n(200, 1500);   // random longer programs under PCT schedules
  long NSTRESS = c.n(8, 64);    // real-thread stress runs
  long NHUNT = c.n(24, 96);     // head-recurrence hunts (stalled victim, adaptive helpers)
  std::set<uint64_t> sched_hashes, final_hashes;
  long total_exec = 0;

  vh::run_cases(c, 19, NC + NSEQ + NPCT + NSTRESS + NHUNT, [&](long idx, vh::Rng& r) {
    if (idx >= NC + NSEQ + NPCT + NSTRESS) {
      long k = idx - (NC + NSEQ + NPCT + NSTRESS);
      bool victim_inserts = k % 2;
      int cap = 3 + (int)((k / 2) % 2);
      int prefill = victim_inserts ? (int)r.pick(cap - 1) : 2 + (int)r.pick(cap - 1);
      long budget = thorough ? 140000 : 70000;   // restoring cycles of two updates each: covers a 16-bit version field (twice in the thorough tier)
      std::string what = vh::fmt("head-recurrence hunt: capacity=%d prefill=%d victim=%s", cap, prefill, victim_inserts ? "insert" : "fetch");
      c.desc(what); c.count("configs.hunt"); c.nontrivial(vh::fnv_str(what + std::to_string(idx)));
      // cheap attempts until the helpers have produced the dangerous shape, then one expensive cycling phase
      HuntResult hr;
      for (int attempt = 0; attempt < 200; attempt++) {
        hr = hunt_once(r, cap, prefill, victim_inserts, budget);
        c.eval(); total_exec++; c.count("hunt.attempts");
        if (!hr.why.empty() || hr.shape_reached) break;
      }
      if (hr.shape_reached) c.count("hunt.same_record_on_top_with_another_successor");
      c.count(hr.head_recurred ? "hunt.head_word_recurred_and_victim_resumed" : "hunt.head_word_did_not_recur_within_budget");
      c.count("hunt.restoring_cycles", hr.cycles);
      if (hr.why == "step budget exceeded") c.violation("hang:C19:step-budget-exceeded", what + ": " + hr.note);
      else if (!hr.why.empty())
        c.violation("C19:concurrent:" + std::string(hr.why.find("two takers") != std::string::npos ? "value-handed-out-twice" : hr.why.find("lost") != std::string::npos ? "value-lost" : "conservation"),
                    what + ": " + hr.why + "; " + hr.note);
      if (k < 2) c.sample(what + ": " + hr.note);
      return;
    }
    if (idx < NC) {
      const Config& cf = cfgs[idx];
      std::string what = progstr(cf.progs, cf.cap, cf.prefill);
      c.desc(what);
      c.count(vh::fmt("configs.threads%zu", cf.progs.size()));
      c.nontrivial(vh::fnv_str(what));
      std::vector<std::vector<uint8_t>> stack; stack.push_back({});
      long execs = 0; bool cut = false;
      // two threads get one more pre-emption; the richest two-thread programs (the longest ones on a small,
      // initially empty cache, where records are recycled most) get two more: ABA-type faults need a stalled
      // thread to be overtaken twice
      bool rich = cf.progs.size() == 2 && (int)cf.progs[0].size() == maxops2 && (int)cf.progs[1].size() == maxops2 && cf.cap <= 2 && cf.prefill == 0;
      int cfbound = cf.progs.size() == 2 ? (rich ? bound + 2 : bound + 1) : bound;
      long cfcap = rich ? exec_cap * 20 : exec_cap;
      if (rich) c.count("configs.deep_bound");
      while (!stack.empty()) {
        std::vector<uint8_t> prefix = stack.back(); stack.pop_back();
        Sched s; s.prefix = prefix; s.bound = cfbound; s.budget = 5000;
        History h = run_once(cf.progs, cf.cap, cf.prefill, s);
        execs++; total_exec++;
        c.eval();
        if (sched_hashes.size() < 4000000) sched_hashes.insert(vh::fnv(s.trace.data(), s.trace.size(), vh::fnv_u(idx, 7)));
        { uint64_t fh = 11; for (auto x : h.drained) fh = vh::fnv_u(x, fh); for (auto& v : h.got) { fh = vh::fnv_u(77, fh); for (auto x : v) fh = vh::fnv_u(x, fh); } final_hashes.insert(vh::fnv_u(idx, fh)); }
        c.worst("max_cas_attempts_in_one_operation", h.max_cas_points);
        if (s.freerun) { c.violation("hang:C19:step-budget-exceeded", what + " schedule prefix " + tracestr(s.trace).substr(0, 200)); break; }
        std::string why = judge(h);
        if (!why.empty()) {
          c.violation("C19:concurrent:" + std::string(why.find("two takers") != std::string::npos ? "value-handed-out-twice" : why.find("lost") != std::string::npos ? "value-lost" : "conservation"),
                      what + ": " + why + "; schedule (thread run at each schedule point) " + tracestr(s.trace));
          break;
        }
        for (size_t i = prefix.size(); i < s.alts.size(); i++)
          for (uint8_t a : s.alts[i]) { std::vector<uint8_t> p(s.trace.begin(), s.trace.begin() + i); p.push_back(a); stack.push_back(p); }
        if (execs >= cfcap) { cut = true; break; }
      }
      c.count("executions.enumerated", execs);
      c.count(cut ? "configs.cut_short" : "configs.exhausted_within_bound");
      if (idx % 400 == 0) c.sample(what + vh::fmt(": %ld executions, preemption bound %d", execs, cfbound));
      return;
    }
    if (idx < NC + NSEQ) {
      int k = (int)(idx - NC); int cap = 1 + k / 2; bool tls = k % 2;
      c.desc(vh::fmt("sequential enumeration capacity=%d variant=%s", cap, tls ? "thread-local" : "shared"));
      int L = thorough ? 14 : 12;
      long nseq = 0;
      for (int len = 1; len <= L; len++) for (uint32_t bits = 0; bits < (1u << len); bits++) { c.eval(); nseq++; if (!sequential_check(c, tls ? "thread-local" : "shared", tls ? make_tls_cache : make_shared_cache, cap, len, bits)) goto done; }
    done:
      c.count(tls ? "sequential.thread_local" : "sequential.shared", nseq);
      c.nontrivial(vh::fnv_str(c.cur_desc));
      return;
    }
    if (idx < NC + NSEQ + NPCT) {
      // longer random programs, PCT schedules of depth 3..5
      int nt = 2 + r.pick(2), cap = 1 + r.pick(4), prefill = r.pick(cap + 1);
      std::vector<Prog> ps(nt);
      for (auto& p : ps) { int len = 3 + r.pick(6); for (int k = 0; k < len; k++) p.push_back(r.coin(0.55)); }
      std::string what = progstr(ps, cap, prefill) + " [PCT]";
      c.desc(what); c.count("configs.pct"); c.nontrivial(vh::fnv_str(what));
      int reps = thorough ? 200 : 60;
      for (int rep = 0; rep < reps; rep++) {
        Sched s; s.pct = true; s.rng = &r; s.budget = 20000;
        s.prio.resize(nt); for (int t = 0; t < nt; t++) s.prio[t] = 1000 + (int)r.pick(1000);
        int depth = 3 + r.pick(3);
        for (int k = 0; k < depth - 1; k++) s.change_at.push_back(r.pick(12 * 9 * nt));
        History h = run_once(ps, cap, prefill, s);
        c.eval(); total_exec++;
        if (sched_hashes.size() < 4000000) sched_hashes.insert(vh::fnv(s.trace.data(), s.trace.size(), vh::fnv_u(idx, 9)));
        if (s.freerun) { c.violation("hang:C19:step-budget-exceeded", what); break; }
        std::string why = judge(h);
        if (!why.empty()) { c.violation("C19:concurrent:" + std::string(why.find("two takers") != std::string::npos ? "value-handed-out-twice" : why.find("lost") != std::string::npos ? "value-lost" : "conservation"), what + ": " + why + "; schedule " + tracestr(s.trace)); break; }
      }
      c.count("executions.pct", reps);
      return;
    }
    // ---- real-thread stress: hardware interleavings, random yields at the hooks
    {
      int nt = 8, cap = 1 + r.pick(4);
      long ops = thorough ? 400000 : 120000;
      std::string what = vh::fmt("real-thread stress: %d threads, capacity %d, %ld operations each, yield every ~%d points", nt, cap, ops, 50);
      c.desc(what); c.count("configs.stress"); c.nontrivial(vh::fnv_str(what + std::to_string(idx)));
      std::unique_ptr<ICache> ca(make_shared_cache(cap));
      yield_every = 50;
      std::vector<std::vector<uint64_t>> got(nt), ins(nt);
      std::vector<std::thread> th;
      uint64_t seed0 = r.next();
      for (int t = 0; t < nt; t++)
        th.emplace_back([&, t] {
          vh::Rng rr(seed0, 1234, t); yield_rng = rr.next() | 1;
          uint64_t ctr = 0;
          for (long k = 0; k < ops; k++) {
            if (rr.coin(0.5)) { uint64_t id = (uint64_t(t + 1) << 40) | (++ctr); if (ca->insert(id)) ins[t].push_back(id); }
            else { uint64_t v = ca->get(); if (v) got[t].push_back(v); }
          }
        });
      for (auto& t : th) t.join();
      yield_every = 0;
      std::vector<uint64_t> out, in;
      for (auto& v : got) out.insert(out.end(), v.begin(), v.end());
      for (auto& v : ins) in.insert(in.end(), v.begin(), v.end());
      size_t fetched = out.size();
      for (;;) { uint64_t v = ca->get(); if (!v) break; out.push_back(v); if (out.size() > fetched + 100) break; }
      std::sort(out.begin(), out.end()); std::sort(in.begin(), in.end());
      c.eval(nt * ops); c.count("operations.stress", nt * ops); c.count("stress.values_through_cache", (long)in.size());
      // every value that came out (fetched or drained) was successfully inserted, exactly once, and nothing is missing
      if (std::adjacent_find(out.begin(), out.end()) != out.end()) c.violation("C19:concurrent:value-handed-out-twice", what + ": a value appears twice among fetched+drained values");
      else if (out != in) c.violation(out.size() < in.size() ? "C19:concurrent:value-lost" : "C19:concurrent:conservation", what + vh::fmt(": %zu successful inserts, %zu values fetched or drained, sets differ", in.size(), out.size()));
    }
  });
  c.count("distinct_schedules", (long)sched_hashes.size());
  c.count("distinct_final_configurations", (long)final_hashes.size());
  c.write();
  return 0;
}
