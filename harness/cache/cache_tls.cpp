// The thread-local configuration of Cache.h (what gcc and clang builds of the library use).
#include <cstdint>
#include <cstddef>
#define SQUIDS_THREAD_LOCAL thread_local
#include <SQuIDS/detail/Cache.h>
#include "cache/icache.h"
namespace {
struct ItemT { uint64_t id; ItemT() : id(0) {} ItemT(uint64_t i) : id(i) {} };
template <unsigned N> struct Impl : ICache {
  squids::detail::cache<ItemT, N> c;
  bool insert(uint64_t id) override { return c.insert(ItemT(id)); }
  uint64_t get() override { ItemT i = c.get(); return i.id; }
};
}
ICache* make_tls_cache(int cap) {
  switch (cap) { case 1: return new Impl<1>(); case 2: return new Impl<2>(); case 3: return new Impl<3>(); case 4: return new Impl<4>(); case 32: return new Impl<32>(); }
  return nullptr;
}
