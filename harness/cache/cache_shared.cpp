// The configuration without thread-local storage: Cache.h is included on its own, with
// SQUIDS_THREAD_LOCAL undefined, exactly as a compiler without TLS support would see it.
#include <cstdint>
#include <cstddef>
#ifdef SQUIDS_THREAD_LOCAL
#error "this translation unit must see Cache.h without SQUIDS_THREAD_LOCAL"
#endif
#include <SQuIDS/detail/Cache.h>
#include "cache/icache.h"
namespace {
struct ItemS { uint64_t id; ItemS() : id(0) {} ItemS(uint64_t i) : id(i) {} };  // distinct type: no ODR clash with the other TU
template <unsigned N> struct Impl : ICache {
  squids::detail::cache<ItemS, N> c;
  bool insert(uint64_t id) override { return c.insert(ItemS(id)); }
  uint64_t get() override { ItemS i = c.get(); return i.id; }
  void head(int which, unsigned long long& counter, unsigned long long& index) override { c.verif_head(which, counter, index); }
  unsigned long long next(unsigned long long index) override { return c.verif_next(index); }
};
}
ICache* make_shared_cache(int cap) {
  switch (cap) { case 1: return new Impl<1>(); case 2: return new Impl<2>(); case 3: return new Impl<3>(); case 4: return new Impl<4>(); case 32: return new Impl<32>(); }
  return nullptr;
}
