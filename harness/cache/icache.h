// icache.h - uniform face of the two cache variants (each compiled in its own translation unit)
#pragma once
#include <cstdint>
struct ICache {
  virtual bool insert(uint64_t id) = 0;   // false: the cache refused, the caller keeps the value
  virtual uint64_t get() = 0;             // 0: nothing cached
  // shared variant only (hook): raw head (version counter, index) of the data (0) / free (1) list, successor of a record
  virtual void head(int which, unsigned long long& counter, unsigned long long& index) { counter = 0; index = 0; (void)which; }
  virtual unsigned long long next(unsigned long long index) { return index; }
  virtual ~ICache() {}
};
ICache* make_shared_cache(int capacity);  // Cache.h without SQUIDS_THREAD_LOCAL: one cache shared by all threads
ICache* make_tls_cache(int capacity);     // Cache.h with SQUIDS_THREAD_LOCAL: the single-thread variant
