// ledger.cpp - see ledger.h.  Backed by malloc/free so that ASan keeps its red zones/quarantine.
#include "common/ledger.h"
#include <cstdlib>
#include <cstring>
#include <new>
#include <pthread.h>

namespace {
// open-addressing pointer table stored with malloc (must not use operator new)
struct Slot { const void* p; size_t size; unsigned long tid; };
struct Table {
  Slot* s = nullptr; size_t cap = 0, n = 0;
  static size_t h(const void* p, size_t cap) { uintptr_t x = (uintptr_t)p; x ^= x >> 17; x *= 0x9e3779b97f4a7c15ULL; x ^= x >> 29; return (size_t)x & (cap - 1); }
  void grow() {
    size_t nc = cap ? cap * 2 : 4096;
    Slot* ns = (Slot*)calloc(nc, sizeof(Slot));
    for (size_t i = 0; i < cap; i++) if (s[i].p && s[i].p != (const void*)1) { size_t k = h(s[i].p, nc); while (ns[k].p) k = (k + 1) & (nc - 1); ns[k] = s[i]; }
    free(s); s = ns; cap = nc;
    // tombstones are dropped by rehashing
  }
  size_t tomb = 0;
  void insert(const void* p, size_t size, unsigned long tid) {
    if ((n + tomb + 1) * 2 > cap) { grow(); tomb = 0; }
    size_t k = h(p, cap);
    while (s[k].p && s[k].p != (const void*)1) k = (k + 1) & (cap - 1);
    if (s[k].p == (const void*)1) tomb--;
    s[k] = Slot{p, size, tid}; n++;
  }
  Slot* find(const void* p) {
    if (!cap) return nullptr;
    size_t k = h(p, cap);
    while (s[k].p) { if (s[k].p == p) return &s[k]; k = (k + 1) & (cap - 1); }
    return nullptr;
  }
  void erase(Slot* q) { q->p = (const void*)1; n--; tomb++; }
};
Table table;
pthread_mutex_t mu = PTHREAD_MUTEX_INITIALIZER;
ledger::Stats st;
ledger::Error errs[256];
int nerrs = 0;

struct Window { bool active = false; long count = 0, fail_at = 0; bool fired = false; int exempt = 0; };
thread_local Window win;

struct Lock { Lock() { pthread_mutex_lock(&mu); } ~Lock() { pthread_mutex_unlock(&mu); } };
unsigned long self() { return (unsigned long)pthread_self(); }
void add_error(const char* kind, const void* p, size_t size) { if (nerrs < 256) errs[nerrs++] = ledger::Error{kind, p, size}; }

bool should_fail() {
  if (!win.active || win.exempt) return false;
  win.count++;
  if (win.fail_at > 0 && win.count == win.fail_at) { win.fired = true; return true; }
  return false;
}
void* alloc(std::size_t size, bool array) {
  if (should_fail()) { Lock l; st.injected++; throw std::bad_alloc(); }
  void* p = malloc(size ? size : 1);
  if (!p) throw std::bad_alloc();
  Lock l;
  if (array) {
    table.insert(p, size, self());
    st.array_allocs++; st.live_array++;
    if (st.live_array > st.peak_live_array) st.peak_live_array = st.live_array;
  } else st.scalar_allocs++;
  return p;
}
void dealloc(void* p, bool array) {
  if (!p) return;
  {
    Lock l;
    Slot* q = table.find(p);
    if (array) {
      if (!q) { add_error("delete[] of a pointer that is not a live array block (double free / foreign pointer)", p, 0); return; }  // not forwarded
      if (q->tid != self()) st.cross_thread_frees++;
      table.erase(q); st.array_frees++; st.live_array--;
    } else {
      if (q) { add_error("scalar delete of an array block", p, q->size); table.erase(q); st.live_array--; }
      st.scalar_frees++;
    }
  }
  free(p);
}
}  // namespace

namespace ledger {
Stats stats() { Lock l; return st; }
long live_array_blocks() { Lock l; return st.live_array; }
std::vector<std::pair<const void*, size_t>> live_array_list(size_t maxn) {
  Exempt e;
  std::vector<std::pair<const void*, size_t>> v;
  v.reserve(maxn);  // allocate before taking the (non-recursive) lock
  Lock l;
  for (size_t i = 0; i < table.cap && v.size() < maxn; i++) if (table.s[i].p && table.s[i].p != (const void*)1) v.push_back({table.s[i].p, table.s[i].size});
  return v;
}
bool is_live_array(const void* p) { Lock l; return table.find(p) != nullptr; }
std::vector<Error> take_errors() {
  Exempt e;
  Error local[256]; int n;
  { Lock l; n = nerrs; memcpy(local, errs, sizeof(Error) * n); nerrs = 0; }
  return std::vector<Error>(local, local + n);
}
void begin_window(long fail_at) { win.active = true; win.count = 0; win.fail_at = fail_at; win.fired = false; }
long end_window() { win.active = false; return win.count; }
bool fault_fired() { return win.fired; }
Exempt::Exempt() { win.exempt++; }
Exempt::~Exempt() { win.exempt--; }
}  // namespace ledger

void* operator new(std::size_t n) { return alloc(n, false); }
void* operator new[](std::size_t n) { return alloc(n, true); }
void* operator new(std::size_t n, const std::nothrow_t&) noexcept { try { return alloc(n, false); } catch (...) { return nullptr; } }
void* operator new[](std::size_t n, const std::nothrow_t&) noexcept { try { return alloc(n, true); } catch (...) { return nullptr; } }
void operator delete(void* p) noexcept { dealloc(p, false); }
void operator delete[](void* p) noexcept { dealloc(p, true); }
void operator delete(void* p, std::size_t) noexcept { dealloc(p, false); }
void operator delete[](void* p, std::size_t) noexcept { dealloc(p, true); }
void operator delete(void* p, const std::nothrow_t&) noexcept { dealloc(p, false); }
void operator delete[](void* p, const std::nothrow_t&) noexcept { dealloc(p, true); }
