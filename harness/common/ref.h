// ref.h - independent dense-matrix reference mathematics in long double.
// Nothing here uses the library under test: the generalised Gell-Mann basis is built from
// its textbook formula, products are plain triple loops, the exponential is scaling +
// Taylor series.  Conversion SU_vector <-> reference goes through component lists only.
#pragma once
#include <complex>
#include <vector>
#include <cmath>
#include <algorithm>

namespace ref {
typedef long double real;
typedef std::complex<long double> cx;

struct Mat {
  int n;
  std::vector<cx> a;
  explicit Mat(int n_ = 0) : n(n_), a((size_t)n_ * n_) {}
  cx& operator()(int i, int j) { return a[(size_t)i * n + j]; }
  const cx& operator()(int i, int j) const { return a[(size_t)i * n + j]; }
  static Mat identity(int n) { Mat m(n); for (int i = 0; i < n; i++) m(i, i) = 1; return m; }
};
inline Mat operator*(const Mat& x, const Mat& y) {
  Mat r(x.n);
  for (int i = 0; i < x.n; i++)
    for (int k = 0; k < x.n; k++) {
      cx xik = x(i, k);
      if (xik == cx(0)) continue;
      for (int j = 0; j < x.n; j++) r(i, j) += xik * y(k, j);
    }
  return r;
}
inline Mat operator+(const Mat& x, const Mat& y) { Mat r(x.n); for (size_t i = 0; i < r.a.size(); i++) r.a[i] = x.a[i] + y.a[i]; return r; }
inline Mat operator-(const Mat& x, const Mat& y) { Mat r(x.n); for (size_t i = 0; i < r.a.size(); i++) r.a[i] = x.a[i] - y.a[i]; return r; }
inline Mat operator*(cx s, const Mat& x) { Mat r(x.n); for (size_t i = 0; i < r.a.size(); i++) r.a[i] = s * x.a[i]; return r; }
inline Mat operator*(real s, const Mat& x) { return cx(s) * x; }
inline Mat dag(const Mat& x) { Mat r(x.n); for (int i = 0; i < x.n; i++) for (int j = 0; j < x.n; j++) r(i, j) = std::conj(x(j, i)); return r; }
inline Mat transpose(const Mat& x) { Mat r(x.n); for (int i = 0; i < x.n; i++) for (int j = 0; j < x.n; j++) r(i, j) = x(j, i); return r; }
inline cx trace(const Mat& x) { cx s = 0; for (int i = 0; i < x.n; i++) s += x(i, i); return s; }
inline real maxabs(const Mat& x) { real m = 0; for (auto& z : x.a) m = std::max(m, std::abs(z)); return m; }
inline real norm1(const Mat& x) { real r = 0; for (int j = 0; j < x.n; j++) { real s = 0; for (int i = 0; i < x.n; i++) s += std::abs(x(i, j)); r = std::max(r, s); } return r; }
inline real normF(const Mat& x) { real s = 0; for (auto& z : x.a) s += std::norm(z); return std::sqrt(s); }
inline bool finite(const Mat& x) { for (auto& z : x.a) if (!std::isfinite((double)z.real()) || !std::isfinite((double)z.imag())) return false; return true; }

// generalised Gell-Mann basis, component index k = d*i + j
//   k=0            identity
//   i<j            symmetric:      1 at (i,j) and (j,i)
//   i>j            antisymmetric:  -i at (j,i), +i at (i,j)
//   i=j=l>0        diagonal:       sqrt(2/(l(l+1))) * diag(1,..,1,-l,0,..)
inline Mat basis(int d, int k) {
  Mat m(d);
  int i = k / d, j = k % d;
  if (k == 0) { for (int l = 0; l < d; l++) m(l, l) = 1; }
  else if (i < j) { m(i, j) = 1; m(j, i) = 1; }
  else if (i > j) { m(j, i) = cx(0, -1); m(i, j) = cx(0, 1); }
  else { int l = i; real c = std::sqrt((real)2 / ((real)l * (l + 1))); for (int q = 0; q < l; q++) m(q, q) = c; m(l, l) = -c * l; }
  return m;
}
template <class V>
inline Mat from_components(int d, const V& c) {
  Mat m(d);
  for (int k = 0; k < d * d; k++) {
    if (c[k] == 0) continue;
    Mat b = basis(d, k);
    for (size_t q = 0; q < m.a.size(); q++) m.a[q] += cx((real)c[k]) * b.a[q];
  }
  return m;
}
// components of a (Hermitian) matrix: c_0 = Tr(M)/d, c_k = Tr(M lambda_k)/2 (the definition;
// used to cross-check the fast version below once per process)
inline std::vector<real> to_components_by_trace(const Mat& m) {
  int d = m.n;
  std::vector<real> c((size_t)d * d);
  for (int k = 0; k < d * d; k++) {
    cx t = trace(m * basis(d, k));
    c[k] = (k == 0) ? t.real() / d : t.real() / 2;
  }
  return c;
}
// the same numbers read off entry by entry: Tr(M S_ij)/2 = Re M(i,j), Tr(M A_ij)/2 = -Im M(j,i)
// for the antisymmetric generator stored at k=d*i+j (i>j), and the diagonal generators only see
// the diagonal.
inline std::vector<real> to_components_l(const Mat& m) {
  int d = m.n;
  std::vector<real> c((size_t)d * d);
  real tr = 0;
  for (int i = 0; i < d; i++) tr += m(i, i).real();
  c[0] = tr / d;
  for (int i = 0; i < d; i++)
    for (int j = 0; j < d; j++) {
      if (i < j) c[d * i + j] = (m(i, j).real() + m(j, i).real()) / 2;
      else if (i > j) c[d * i + j] = (m(i, j).imag() - m(j, i).imag()) / 2;
      else if (i > 0) {
        int l = i;
        real co = std::sqrt((real)2 / ((real)l * (l + 1))), s = 0;
        for (int q = 0; q < l; q++) s += co * m(q, q).real();
        s += -co * l * m(l, l).real();
        c[d * i + j] = s / 2;
      }
    }
  return c;
}
inline std::vector<double> to_components(const Mat& m) {
  auto l = to_components_l(m);
  std::vector<double> c(l.size());
  for (size_t i = 0; i < l.size(); i++) c[i] = (double)l[i];
  return c;
}

// exp(A): scale until ||A||_1 <= 1/4, 40-term Taylor series, square back.
inline Mat expm(Mat a) {
  int n = a.n;
  real nn = norm1(a);
  int s = 0;
  while (nn > 0.25L) { nn /= 2; s++; }
  real sc = std::ldexp((real)1, -s);
  for (auto& x : a.a) x *= sc;
  Mat r = Mat::identity(n), term = Mat::identity(n);
  for (int k = 1; k < 40; k++) {
    term = term * a;
    for (auto& x : term.a) x /= (real)k;
    for (size_t i = 0; i < r.a.size(); i++) r.a[i] += term.a[i];
  }
  for (int i = 0; i < s; i++) r = r * r;
  return r;
}

// Frechet derivative L_exp(A,E) = upper right block of exp([[A,E],[0,A]])
inline Mat frechet_exp(const Mat& a, const Mat& e) {
  int n = a.n, m = 2 * n;
  Mat b(m);
  for (int i = 0; i < n; i++) for (int j = 0; j < n; j++) { b(i, j) = a(i, j); b(i + n, j + n) = a(i, j); b(i, j + n) = e(i, j); }
  Mat r = expm(b);
  Mat l(n);
  for (int i = 0; i < n; i++) for (int j = 0; j < n; j++) l(i, j) = r(i, j + n);
  return l;
}

// Hermitian eigen-decomposition by cyclic complex Jacobi rotations; returns eigenvalues
// (unsorted) and V with M = V diag(w) V^dagger.  Used for building test inputs with a
// prescribed spectrum/eigenbasis and for conditioning numbers, never as the thing judged.
inline void jacobi_herm(Mat m, std::vector<real>& w, Mat& V) {
  int n = m.n;
  V = Mat::identity(n);
  for (int sweep = 0; sweep < 60; sweep++) {
    real off = 0;
    for (int p = 0; p < n; p++) for (int q = p + 1; q < n; q++) off += std::norm(m(p, q));
    if (off < 1e-60L) break;
    for (int p = 0; p < n; p++)
      for (int q = p + 1; q < n; q++) {
        cx apq = m(p, q);
        real g = std::abs(apq);
        if (g == 0) continue;
        real app = m(p, p).real(), aqq = m(q, q).real();
        cx ph = apq / g;  // e^{i phi}
        real theta = 0.5L * std::atan2(2 * g, app - aqq);
        real c = std::cos(theta), s = std::sin(theta);
        // rotation R: columns p,q ->  p' = c p + s conj(ph) q ; q' = -s ph p + c q   (unitary)
        Mat R = Mat::identity(n);
        R(p, p) = c; R(q, q) = c; R(p, q) = -s * ph; R(q, p) = s * std::conj(ph);
        m = dag(R) * m * R;
        V = V * R;
      }
  }
  w.resize(n);
  for (int i = 0; i < n; i++) w[i] = m(i, i).real();
}

}  // namespace ref
