// ledger.h - allocation ledger and fault injector interposed on the global operator new/delete.
// Linked only into the harnesses that need it (ledger.cpp replaces the global operators).
//
//  * every array-form block (operator new[]) is recorded {pointer,size,thread}; the library's vector
//    storage, solver arrays and view arrays are all array-form, the harness itself never uses new[]
//  * delete[] of a pointer that is not live in the ledger (double free, free of user storage, free
//    of an interior pointer) is recorded as an error and NOT forwarded to free(), so the run can go on
//  * scalar-form allocations are only counted
//  * inside a fault window the k-th allocation (either form) throws std::bad_alloc
#pragma once
#include <cstddef>
#include <cstdint>
#include <vector>
#include <string>

namespace ledger {
struct Error { const char* kind; const void* ptr; size_t size; };
struct Stats {
  long array_allocs = 0, array_frees = 0, scalar_allocs = 0, scalar_frees = 0, cross_thread_frees = 0, injected = 0;
  long live_array = 0, peak_live_array = 0;
};
// all functions are thread safe
Stats stats();
long live_array_blocks();
std::vector<std::pair<const void*, size_t>> live_array_list(size_t maxn = 16);
bool is_live_array(const void* p);
// errors recorded since the last call (cleared by the call)
std::vector<Error> take_errors();

// fault window (per thread): allocations are counted from begin_window(); if fail_at>0 the
// fail_at-th allocation in the window throws.  end_window() returns the number of allocation
// attempts seen.
void begin_window(long fail_at = 0);
long end_window();
bool fault_fired();
// allocations made by the harness itself inside a window can be exempted
struct Exempt { Exempt(); ~Exempt(); };
}  // namespace ledger
