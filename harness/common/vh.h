// vh.h - plumbing shared by all harness processes: PRNG, arguments, case loop,
// coverage counters, violation records, progress side-file, JSON result.
#pragma once
#include <sys/prctl.h>
#include <signal.h>
#include <unistd.h>
#include <cstdint>
#include <cstdio>
#include <cstdlib>
#include <cstring>
#include <cstdarg>
#include <cmath>
#include <string>
#include <vector>
#include <map>
#include <unordered_set>
#include <sstream>
#include <functional>
#include <mutex>
#include <fcntl.h>
#include <unistd.h>
#include <sys/mman.h>

namespace vh {

inline uint64_t splitmix(uint64_t& x) {
  uint64_t z = (x += 0x9e3779b97f4a7c15ULL);
  z = (z ^ (z >> 30)) * 0xbf58476d1ce4e5b9ULL;
  z = (z ^ (z >> 27)) * 0x94d049bb133111ebULL;
  return z ^ (z >> 31);
}
inline uint64_t fnv(const void* p, size_t n, uint64_t h = 1469598103934665603ULL) {
  const unsigned char* c = (const unsigned char*)p;
  for (size_t i = 0; i < n; i++) { h ^= c[i]; h *= 1099511628211ULL; }
  return h;
}
inline uint64_t fnv_str(const std::string& s, uint64_t h = 1469598103934665603ULL) { return fnv(s.data(), s.size(), h); }
inline uint64_t fnv_d(const double* d, size_t n, uint64_t h = 1469598103934665603ULL) { return fnv(d, n * sizeof(double), h); }
inline uint64_t fnv_u(uint64_t v, uint64_t h) { return fnv(&v, sizeof v, h); }

// xoshiro256**
struct Rng {
  uint64_t s[4];
  Rng(uint64_t seed = 1, uint64_t stream = 0, uint64_t idx = 0) {
    uint64_t x = seed * 0x9e3779b97f4a7c15ULL ^ (stream * 0xd1342543de82ef95ULL) ^ (idx * 0xaf251af3b0f025b5ULL + 0x1234567);
    for (int i = 0; i < 4; i++) s[i] = splitmix(x);
  }
  static uint64_t rotl(uint64_t x, int k) { return (x << k) | (x >> (64 - k)); }
  uint64_t next() {
    uint64_t r = rotl(s[1] * 5, 7) * 9, t = s[1] << 17;
    s[2] ^= s[0]; s[3] ^= s[1]; s[1] ^= s[2]; s[0] ^= s[3]; s[2] ^= t; s[3] = rotl(s[3], 45);
    return r;
  }
  double u01() { return (next() >> 11) * (1.0 / 9007199254740992.0); }
  double uni(double a, double b) { return a + (b - a) * u01(); }
  // integer in [0,n)
  unsigned pick(unsigned n) { return n ? (unsigned)(next() % n) : 0; }
  int range(int a, int b) { return a + (int)pick((unsigned)(b - a + 1)); }  // inclusive
  bool coin(double p = 0.5) { return u01() < p; }
  double normal() {
    double u = u01(), v = u01();
    if (u < 1e-300) u = 1e-300;
    return std::sqrt(-2 * std::log(u)) * std::cos(6.283185307179586 * v);
  }
  double logu(double a, double b) { return std::exp(uni(std::log(a), std::log(b))); }
  double sign() { return coin() ? 1.0 : -1.0; }
};

struct Args {
  std::string prop, tier = "quick", out, progress;
  uint64_t seed = 1;
  long start = 0, only = -1;
  int shard = 0, nshards = 1;
  double scale = 1.0;   // the driver lowers the case count for slow (sanitizer) builds
  std::string variant = "?";
  bool verbose = false;
};

inline Args parse_args(int argc, char** argv) {
  // a harness process must not outlive the driver that started it (an interrupted driver once left sixteen of them
  // spinning for hours), nor run for ever: die with the parent, and at the latest after eight hours
  prctl(PR_SET_PDEATHSIG, SIGKILL);
  alarm(8 * 3600);
  Args a;
  for (int i = 1; i < argc; i++) {
    std::string k = argv[i];
    auto val = [&]() -> std::string { if (i + 1 >= argc) { fprintf(stderr, "missing value for %s\n", k.c_str()); exit(2); } return argv[++i]; };
    if (k == "--prop") a.prop = val();
    else if (k == "--tier") a.tier = val();
    else if (k == "--out") a.out = val();
    else if (k == "--progress") a.progress = val();
    else if (k == "--seed") a.seed = strtoull(val().c_str(), 0, 10);
    else if (k == "--start") a.start = atol(val().c_str());
    else if (k == "--only") a.only = atol(val().c_str());
    else if (k == "--shard") { std::string v = val(); sscanf(v.c_str(), "%d/%d", &a.shard, &a.nshards); }
    else if (k == "--scale") a.scale = atof(val().c_str());
    else if (k == "--variant") a.variant = val();
    else if (k == "-v") a.verbose = true;
    else { fprintf(stderr, "unknown argument %s\n", k.c_str()); exit(2); }
  }
  return a;
}

inline std::string jesc(const std::string& s) {
  std::string o;
  for (unsigned char c : s) {
    if (c == '"') o += "\\\""; else if (c == '\\') o += "\\\\"; else if (c == '\n') o += "\\n";
    else if (c == '\t') o += "\\t"; else if (c < 0x20) { char b[8]; snprintf(b, 8, "\\u%04x", c); o += b; }
    else o += (char)c;
  }
  return o;
}

struct Violation { std::string key, detail, desc; long idx; };

struct Progress { long idx; long phase; char desc[1000]; };

struct Ctx {
  Args a;
  std::map<std::string, long> cnt;
  std::map<std::string, double> maxv;           // worst ratios etc. (evidence only)
  std::vector<std::string> samples;
  std::vector<Violation> viol;
  std::map<std::string, long> violcount;
  std::unordered_set<uint64_t> distinct;
  long evaluations = 0, cases = 0;
  long cur = -1;
  std::string cur_desc;
  Progress* prog = nullptr;
  std::mutex mu;   // harnesses with threads report through the same context

  explicit Ctx(const Args& args) : a(args) {
    if (!a.progress.empty()) {
      int fd = open(a.progress.c_str(), O_RDWR | O_CREAT | O_TRUNC, 0644);
      if (fd >= 0 && ftruncate(fd, sizeof(Progress)) == 0) {
        void* p = mmap(nullptr, sizeof(Progress), PROT_READ | PROT_WRITE, MAP_SHARED, fd, 0);
        if (p != MAP_FAILED) { prog = (Progress*)p; prog->idx = -1; prog->phase = 0; prog->desc[0] = 0; }
      }
      if (fd >= 0) close(fd);
    }
  }
  bool thorough() const { return a.tier == "thorough"; }
  // number of cases for this tier, scaled for slow builds
  long n(long quick, long thorough_n) const {
    double v = (thorough() ? thorough_n : quick) * a.scale;
    return v < 1 ? 1 : (long)v;
  }
  void begin_case(long idx) {
    cur = idx; cur_desc.clear(); cases++;
    if (prog) { prog->idx = idx; prog->phase = 1; prog->desc[0] = 0; }
  }
  void end_case() { if (prog) prog->phase = 2; }
  // human readable description of the current case; flushed to the side file before the
  // risky part runs so that a sanitizer abort can still be attributed
  void desc(const std::string& d) {
    cur_desc = d;
    if (prog) { strncpy(prog->desc, d.c_str(), sizeof(prog->desc) - 1); prog->desc[sizeof(prog->desc) - 1] = 0; }
    if (a.only >= 0 || a.verbose) fprintf(stderr, "[case %ld] %s\n", cur, d.c_str());
  }
  void count(const std::string& k, long n = 1) { std::lock_guard<std::mutex> l(mu); cnt[k] += n; }
  void eval(long n = 1) { std::lock_guard<std::mutex> l(mu); evaluations += n; }
  void worst(const std::string& k, double v) { std::lock_guard<std::mutex> l(mu); if (!(v <= maxv[k])) { if (v == v) maxv[k] = v; } }
  void nontrivial(uint64_t h) { std::lock_guard<std::mutex> l(mu); if (distinct.size() < (1u << 21)) distinct.insert(h); }
  void sample(const std::string& s) { std::lock_guard<std::mutex> l(mu); if (samples.size() < 6) samples.push_back(s); }
  void violation(const std::string& key, const std::string& detail) {
    std::lock_guard<std::mutex> l(mu);
    long c = ++violcount[key];
    if (c <= 3 && viol.size() < 200) viol.push_back(Violation{key, detail, cur_desc, cur});
    // the first occurrences also go to stderr at once: if a sanitizer aborts this process later, the result file is never
    // written and the driver recovers them from there
    if (a.only >= 0 || a.verbose || c <= 3) fprintf(stderr, "VIOLATION-DETAIL key=%s case=%ld: %s\n", key.c_str(), cur, detail.c_str());
  }
  void write() {
    if (a.out.empty()) {
      fprintf(stderr, "cases=%ld evaluations=%ld distinct=%zu violations=%zu\n", cases, evaluations, distinct.size(), violcount.size());
      for (auto& kv : violcount) fprintf(stderr, "  %s x%ld\n", kv.first.c_str(), kv.second);
      for (auto& v : viol) fprintf(stderr, "  [%s] case %ld: %s | %s\n", v.key.c_str(), v.idx, v.detail.c_str(), v.desc.c_str());
      return;
    }
    std::string tmp = a.out + ".tmp";
    FILE* f = fopen(tmp.c_str(), "w");
    if (!f) { perror("out"); exit(2); }
    fprintf(f, "{\"prop\":\"%s\",\"variant\":\"%s\",\"cases\":%ld,\"evaluations\":%ld,\n", a.prop.c_str(), a.variant.c_str(), cases, evaluations);
    fprintf(f, "\"counters\":{");
    bool first = true;
    for (auto& kv : cnt) { fprintf(f, "%s\"%s\":%ld", first ? "" : ",", jesc(kv.first).c_str(), kv.second); first = false; }
    fprintf(f, "},\n\"max\":{");
    first = true;
    for (auto& kv : maxv) { fprintf(f, "%s\"%s\":%.6g", first ? "" : ",", jesc(kv.first).c_str(), std::isfinite(kv.second) ? kv.second : 1e308); first = false; }
    fprintf(f, "},\n\"samples\":[");
    first = true;
    for (auto& s : samples) { fprintf(f, "%s\"%s\"", first ? "" : ",", jesc(s).c_str()); first = false; }
    fprintf(f, "],\n\"violcount\":{");
    first = true;
    for (auto& kv : violcount) { fprintf(f, "%s\"%s\":%ld", first ? "" : ",", jesc(kv.first).c_str(), kv.second); first = false; }
    fprintf(f, "},\n\"violations\":[");
    first = true;
    for (auto& v : viol) {
      fprintf(f, "%s{\"key\":\"%s\",\"idx\":%ld,\"detail\":\"%s\",\"desc\":\"%s\"}", first ? "" : ",\n", jesc(v.key).c_str(), v.idx, jesc(v.detail).c_str(), jesc(v.desc).c_str());
      first = false;
    }
    fprintf(f, "],\n\"distinct\":[");
    first = true;
    for (auto h : distinct) { fprintf(f, "%s%llu", first ? "" : ",", (unsigned long long)h); first = false; }
    fprintf(f, "]}\n");
    fclose(f);
    rename(tmp.c_str(), a.out.c_str());
  }
};

// Drives cases [0,total) for this shard.  `fn(idx, rng)` must be a deterministic function
// of (seed, idx) so that `--only idx` replays it.
template <class F>
inline void run_cases(Ctx& c, uint64_t stream, long total, F fn) {
  for (long idx = c.a.start; idx < total; idx++) {
    if (c.a.only >= 0 && idx != c.a.only) continue;
    if (c.a.only < 0 && (idx % c.a.nshards) != c.a.shard) continue;
    Rng r(c.a.seed, stream, (uint64_t)idx);
    c.begin_case(idx);
    fn(idx, r);
    c.end_case();
  }
}

inline std::string fmt(const char* f, ...) __attribute__((format(printf, 1, 2)));
inline std::string fmt(const char* f, ...) {
  char buf[2048];
  va_list ap; va_start(ap, f); vsnprintf(buf, sizeof buf, f, ap); va_end(ap);
  return buf;
}
inline std::string vecstr(const double* v, size_t n, size_t maxn = 36) {
  std::string s = "[";
  for (size_t i = 0; i < n && i < maxn; i++) { char b[40]; snprintf(b, 40, "%s%.17g", i ? "," : "", v[i]); s += b; }
  if (n > maxn) s += ",...";
  return s + "]";
}
inline std::string vecstr(const std::vector<double>& v, size_t maxn = 36) { return vecstr(v.data(), v.size(), maxn); }

}  // namespace vh
