// h_threads: C18 - independent use from several threads is race free and gives sequential results
//
// Four workload families run together in every round:
//  (a) algebra workers on private vectors (sums, commutators, evolution, rotations, eigen systems,
//      matrix exponentials); their result digests must be bitwise those of a sequential run
//  (b) producers handing vectors through a mutex-protected queue to consumers that read, modify,
//      resize and destroy them (blocks allocated on one thread, released on another)
//  (c) query workers evaluating every expectation-value / interpolation overload on two shared,
//      no-longer-evolving solvers of different dimension (bitwise equal to sequential)
//  (d) thread churn: short-lived threads that work and exit
// Oracles: ThreadSanitizer (tsan build), bitwise comparison with the sequential run, the allocation
// ledger after all workers have ended (storage cached by a thread is given back when it ends).
#include <SQuIDS/SQuIDS.h>
#include <SQuIDS/const.h>
#include "common/vh.h"
#include "common/ledger.h"
#include <thread>
#include <mutex>
#include <condition_variable>
#include <deque>
#include <memory>
#include <atomic>
#include <sched.h>

using squids::SU_vector;
typedef std::vector<double> Vec;

namespace {
Vec rand_vec(vh::Rng& r, unsigned d) { Vec v((size_t)d * d); for (auto& x : v) x = r.normal(); return v; }
void put(Vec& dg, const SU_vector& v) { for (unsigned i = 0; i < v.Size(); i++) dg.push_back(v[i]); }

struct Digest { Vec exact, approx; };

void private_solver(uint64_t seed, unsigned d, Vec& out);
// (a) a seeded program of vector algebra on private vectors
Digest algebra_program(uint64_t seed, int nops) {
  vh::Rng r(seed, 18, 1);
  Digest dg;
  unsigned d = 2 + r.pick(5);
  std::vector<SU_vector> pool;
  for (int i = 0; i < 4; i++) pool.emplace_back(rand_vec(r, d));
  squids::Const k;
  for (unsigned j = 1; j < 6; j++) for (unsigned i = 0; i < j; i++) { k.SetMixingAngle(i, j, r.uni(-1, 1)); k.SetPhase(i, j, r.uni(-1, 1)); }
  for (int op = 0; op < nops; op++) {
    int a = r.pick(4), b = r.pick(4), t = r.pick(4);
    switch (r.pick(15)) {
      case 0: pool[t] = pool[a] + pool[b]; break;
      case 1: pool[t] = squids::iCommutator(pool[a], pool[b]); break;
      case 2: pool[t] = squids::ACommutator(pool[a], pool[b]) * 0.25; break;
      case 3: { SU_vector h(d); for (unsigned l = 1; l < d; l++) h[d * l + l] = r.normal(); pool[t] = pool[a].Evolve(h, r.normal()); } break;
      case 4: pool[t] = pool[a].Rotate(0, d - 1, r.normal(), r.normal()); break;
      case 5: { SU_vector x(pool[a]); x.RotateToB1(k); pool[t] = std::move(x); } break;
      case 6: { auto es = pool[a].GetEigenSystem(); for (unsigned i = 0; i < d; i++) dg.exact.push_back(gsl_vector_get(es.first.get(), i)); } break;
      case 7: {
        // matrix exponential with the norm steered through every Pade branch (3,5,7,9,13 and several squarings),
        // so that each thread touches every piece of thread-local scratch of the exponential
        static const double targets[] = {0.004, 0.08, 0.5, 1.4, 1.9, 3.5, 9.0, 40.0};
        double m = 0; for (unsigned i = 0; i < pool[b].Size(); i++) m = std::max(m, std::fabs(pool[b][i]));
        double sc = m > 0 ? targets[r.pick(8)] / (m * d) : 1.0;
        SU_vector u = pool[a].UTransform(pool[b], gsl_complex_rect(0, sc * r.sign()));
        put(dg.approx, u);  // randomised norm estimator: compared within tolerance
      } break;
      case 8: dg.exact.push_back(pool[a] * pool[b]); break;
      case 9: { unsigned nd = 2 + r.pick(5); SU_vector n(rand_vec(r, nd)); SU_vector m = n - n * 0.5; put(dg.exact, m); } break;  // other dimensions: more cache traffic
      case 10: { auto U = k.GetTransformationMatrix(d); pool[t] = r.coin() ? pool[a].UTransform(U.get()) : (r.coin() ? pool[a].UDaggerTransform(U.get()) : pool[a].Rotate(U.get())); } break;
      case 11: pool[t] = std::move(pool[a]) - pool[b]; pool[a] = SU_vector(rand_vec(r, d)); break;
      case 12: { size_t n = pool[a].GetEvolveBufferSize(); std::unique_ptr<double[]> buf(new double[n]); SU_vector h(d); for (unsigned l = 1; l < d; l++) h[d * l + l] = r.normal(); h.PrepareEvolve(buf.get(), r.normal()); pool[t] = pool[b].Evolve(buf.get()); } break;
      case 13: private_solver(r.next(), d, dg.exact); break;   // a solver object owned by this thread: construct, evolve, query, destroy
      default: pool[t] *= 0.5; pool[t] += pool[a].Real() - pool[b].Imag();
    }
    // keep magnitudes bounded
    double m = 0; for (unsigned i = 0; i < pool[t].Size(); i++) m = std::max(m, std::fabs(pool[t][i]));
    if (m > 1e3) pool[t] /= m;
    if (m < 1e-3) pool[t] = SU_vector(rand_vec(r, d));   // ... and away from underflow
  }
  for (auto& v : pool) put(dg.exact, v);
  return dg;
}

// (c) shared solvers
struct Shared : public squids::SQuIDS {
  Shared(unsigned nx, unsigned d, unsigned nr, uint64_t seed) : squids::SQuIDS(nx, d, nr, 0, 0.25) {
    vh::Rng r(seed, 18, 3);
    Set_xrange(0.5, 4.0, d % 2 ? "log" : "linear");
    for (unsigned ix = 0; ix < nx; ix++) for (unsigned ir = 0; ir < nr; ir++) for (unsigned k = 0; k < d * d; k++) state[ix].rho[ir][k] = r.normal();
    Set_CoherentRhoTerms(true); Set_rel_error(1e-7); Set_abs_error(1e-7); Set_h(1e-2);
    Evolve(0.3);              // ... and from now on it is only queried
    Set_AnyNumerics(false); Evolve(1.7);
  }
  SU_vector H0(double x, unsigned ir) const override { SU_vector h(nsun); for (unsigned l = 1; l < nsun; l++) h[nsun * l + l] = 0.3 * l * x + 0.1 * ir; return h; }
  SU_vector HI(unsigned ix, unsigned, double t) const override { SU_vector h(nsun); h[1] = 0.2 + 0.05 * ix + 0.01 * t; return h; }
};
void private_solver(uint64_t seed, unsigned d, Vec& out) {
  Shared p(2 + (unsigned)(seed % 3), d, 1, seed);   // the constructor evolves it with and without numerics
  vh::Rng r(seed, 18, 7);
  SU_vector O(rand_vec(r, d));
  out.push_back(p.GetExpectationValue(O, 0, 0));
  out.push_back(p.GetExpectationValueD(O, 0, r.uni(0.5, 4.0)));
  out.push_back(p.Get_t());
}
Vec query_program(const Shared& s1, const Shared& s2, uint64_t seed, int nq) {
  vh::Rng r(seed, 18, 4);
  Vec out;
  for (int q = 0; q < nq; q++) {
    const Shared& s = r.coin() ? s1 : s2;   // alternating dimensions resizes the thread-local scratch vectors
    unsigned dim = s.H0(1.0, 0).Dim();
    SU_vector O(rand_vec(r, dim));
    unsigned ir = r.pick(s.Get_nrhos()), ix = r.pick(s.Get_nx());
    double x = r.uni(0.5, 4.0);
    std::vector<bool> av(dim * (dim - 1) / 2);
    switch (r.pick(6)) {
      case 0: out.push_back(s.GetExpectationValue(O, ir, ix)); break;
      case 1: out.push_back(s.GetExpectationValue(O, ir, ix, r.uni(0.5, 5), av)); break;
      case 2: out.push_back(s.GetExpectationValueD(O, ir, x)); break;
      case 3: out.push_back(s.GetExpectationValueD(O, ir, x, r.uni(0.5, 5), av)); break;
      case 4: { squids::SQuIDS::expectationValueDBuffer b(dim); out.push_back(s.GetExpectationValueD(O, ir, x, b)); out.push_back(s.GetExpectationValueD(O, ir, x, b, 2.0, av)); } break;
      default: { SU_vector st = s.GetIntermediateState(ir, x); put(out, st); }
    }
  }
  return out;
}

// (b) hand-over queue
struct Queue {
  std::mutex m; std::condition_variable cv; std::deque<std::unique_ptr<SU_vector>> q; bool closed = false;
  void push(std::unique_ptr<SU_vector> v) { { std::lock_guard<std::mutex> l(m); q.push_back(std::move(v)); } cv.notify_one(); }
  std::unique_ptr<SU_vector> pop() { std::unique_lock<std::mutex> l(m); cv.wait(l, [&] { return !q.empty() || closed; }); if (q.empty()) return nullptr; auto v = std::move(q.front()); q.pop_front(); return v; }
  void close() { { std::lock_guard<std::mutex> l(m); closed = true; } cv.notify_all(); }
};
void jitter(vh::Rng& r) { unsigned k = r.pick(8); if (k == 0) sched_yield(); else if (k == 1) { struct timespec ts = {0, (long)r.pick(20000)}; nanosleep(&ts, nullptr); } }

// A user-side thread_local container of vectors, constructed (empty) before the thread first uses the
// library and filled later: its vectors are destroyed at thread exit AFTER the library's own per-thread
// objects, i.e. the last releases of a thread happen while the thread is already being torn down.
thread_local std::vector<SU_vector> tls_pool;
void tls_pool_begin() { tls_pool.reserve(8); }
void tls_pool_end(uint64_t seed) { vh::Rng r(seed, 18, 9); for (int i = 0; i < 5; i++) tls_pool.emplace_back(rand_vec(r, 2 + r.pick(5))); }

bool same_bits(const Vec& a, const Vec& b) { return a.size() == b.size() && (a.empty() || memcmp(a.data(), b.data(), a.size() * 8) == 0); }
}  // namespace

int main(int argc, char** argv) {
  vh::Args args = vh::parse_args(argc, argv);
  vh::Ctx c(args);
  if (args.prop != "C18") { fprintf(stderr, "h_threads serves C18 only\n"); return 2; }
  long rounds = c.n(48, 600);
  int nops = c.thorough() ? 400 : 200, nq = c.thorough() ? 400 : 200;
  // main-thread warm-up: per-thread scratch objects of the main thread exist before any baseline
  { Shared w1(3, 2, 1, 1); SU_vector o(2); std::vector<bool> av(1); (void)w1.GetExpectationValueD(o, 0, 1.0); (void)w1.GetExpectationValueD(o, 0, 1.0, 1.0, av); (void)algebra_program(1, 30); }
  Shared S1(4, 3, 2, args.seed + 1), S2(3, 5, 1, args.seed + 2);

  vh::run_cases(c, 18, rounds, [&](long idx, vh::Rng& r) {
    int nthreads = 2 + (int)r.pick(15);  // 2..16 per family mix
    int nA = 1 + nthreads / 3, nC = 1 + nthreads / 4, nP = 1 + nthreads / 6, nChurn = 2 + nthreads / 2;
    std::string what = vh::fmt("round %ld: %d algebra workers, %d producer/consumer pairs, %d query workers, %d short-lived threads", idx, nA, nP, nC, nChurn);
    c.desc(what);
    c.count(vh::fmt("threads.%d", nA + 2 * nP + nC + 1));
    c.nontrivial(vh::fnv_str(what + std::to_string(r.next())));
    // sequential results first, on this thread
    std::vector<uint64_t> seedA(nA), seedC(nC), seedCh(nChurn);
    std::vector<Digest> wantA(nA), wantCh(nChurn); std::vector<Vec> wantC(nC);
    for (int i = 0; i < nA; i++) { seedA[i] = r.next(); wantA[i] = algebra_program(seedA[i], nops); }
    for (int i = 0; i < nC; i++) { seedC[i] = r.next(); wantC[i] = query_program(S1, S2, seedC[i], nq); }
    for (int i = 0; i < nChurn; i++) { seedCh[i] = r.next(); wantCh[i] = algebra_program(seedCh[i], 25); }
    SU_vector::clear_mem_cache();
    long live0 = ledger::live_array_blocks();
    long cross0 = ledger::stats().cross_thread_frees;

    std::vector<Digest> gotA(nA), gotCh(nChurn); std::vector<Vec> gotC(nC);
    std::vector<std::thread> th;
    std::atomic<long> handed{0}, consumed{0};
    std::atomic<int> go{0};
    auto wait_go = [&] { while (!go.load()) sched_yield(); };
    for (int i = 0; i < nA; i++) th.emplace_back([&, i] { tls_pool_begin(); wait_go(); gotA[i] = algebra_program(seedA[i], nops); tls_pool_end(seedA[i]); });
    for (int i = 0; i < nC; i++) th.emplace_back([&, i] { tls_pool_begin(); wait_go(); gotC[i] = query_program(S1, S2, seedC[i], nq); tls_pool_end(seedC[i]); });
    std::vector<std::unique_ptr<Queue>> qs;
    std::vector<double> sums(nP, 0.0), wantsums(nP, 0.0);
    for (int i = 0; i < nP; i++) {
      qs.emplace_back(new Queue());
      Queue* q = qs.back().get();
      uint64_t sd = r.next();
      th.emplace_back([&, q, sd] {  // producer
        wait_go(); vh::Rng rr(sd, 18, 5);
        for (int k = 0; k < 300; k++) {
          unsigned d = 2 + rr.pick(5);
          std::unique_ptr<SU_vector> v(new SU_vector(rand_vec(rr, d)));
          if (rr.coin(0.3)) *v = *v + *v;   // storage from this thread's cache
          q->push(std::move(v)); handed++;
          jitter(rr);
        }
        q->close();
      });
      th.emplace_back([&, q, sd, i] {  // consumer: reads, modifies, resizes, destroys
        wait_go(); vh::Rng rr(sd, 18, 6);
        double s = 0;
        while (auto v = q->pop()) {
          s += (*v)[0];
          *v *= 2.0;
          if (rr.coin(0.4)) { unsigned nd = 2 + rr.pick(5); *v = SU_vector(nd); }    // resize: releases the producer's block on this thread
          if (rr.coin(0.3)) { SU_vector w = std::move(*v) + SU_vector::Identity(v->Dim() ? v->Dim() : 2); (void)w; }
          v.reset(); consumed++;
          jitter(rr);
        }
        sums[i] = s;
      });
      { vh::Rng rr(sd, 18, 5); double s = 0; for (int k = 0; k < 300; k++) { unsigned d = 2 + rr.pick(5); Vec x = rand_vec(rr, d); bool dbl = rr.coin(0.3); s += dbl ? x[0] + x[0] : x[0]; jitter(rr); } wantsums[i] = s; }
    }
    th.emplace_back([&] {  // churn: threads that start, work and exit
      wait_go();
      for (int i = 0; i < nChurn; i++) { std::thread t([&, i] { tls_pool_begin(); gotCh[i] = algebra_program(seedCh[i], 25); tls_pool_end(seedCh[i]); }); t.join(); }
    });
    go = 1;
    for (auto& t : th) t.join();
    c.eval(nA + nC + nChurn + 2 * nP);
    c.count("workers.algebra", nA); c.count("workers.query", nC); c.count("workers.short_lived", nChurn); c.count("vectors_handed_over", handed.load());
    // sequential-result oracle
    for (int i = 0; i < nA; i++) {
      if (!same_bits(gotA[i].exact, wantA[i].exact)) c.violation("C18:results:algebra-differs-from-sequential", what + vh::fmt(": worker %d (seed %llu)", i, (unsigned long long)seedA[i]));
      if (gotA[i].approx.size() != wantA[i].approx.size()) c.violation("C18:results:algebra-differs-from-sequential", what + ": matrix-exponential digest length");
      else for (size_t k = 0; k < gotA[i].approx.size(); k++) if (!(std::fabs(gotA[i].approx[k] - wantA[i].approx[k]) <= 1e-9 * (1 + std::fabs(wantA[i].approx[k])))) { c.violation("C18:results:matrix-exponential-differs-from-sequential", what + vh::fmt(": worker %d entry %zu: %.17g vs %.17g", i, k, gotA[i].approx[k], wantA[i].approx[k])); break; }
    }
    for (int i = 0; i < nChurn; i++) if (!same_bits(gotCh[i].exact, wantCh[i].exact)) c.violation("C18:results:short-lived-thread-differs-from-sequential", what + vh::fmt(": thread %d", i));
    for (int i = 0; i < nC; i++) if (!same_bits(gotC[i], wantC[i])) {
      size_t k = 0; while (k < gotC[i].size() && k < wantC[i].size() && memcmp(&gotC[i][k], &wantC[i][k], 8) == 0) k++;
      c.violation("C18:results:expectation-values-differ-from-sequential", what + vh::fmt(": query worker %d, first difference at value %zu: %.17g vs %.17g", i, k, k < gotC[i].size() ? gotC[i][k] : 0.0, k < wantC[i].size() ? wantC[i][k] : 0.0));
    }
    for (int i = 0; i < nP; i++) if (sums[i] != wantsums[i]) c.violation("C18:results:handed-over-vectors-differ", what + vh::fmt(": pair %d checksum %.17g vs %.17g", i, sums[i], wantsums[i]));
    if (handed.load() != consumed.load()) c.violation("C18:harness:queue", what);
    long cross = ledger::stats().cross_thread_frees - cross0;
    c.count("blocks_allocated_on_one_thread_released_on_another", cross);
    for (auto& e : ledger::take_errors()) c.violation("C18:ledger:free-of-non-live-block", what + ": " + e.kind);
    // storage cached by a thread is given back when the thread ends
    SU_vector::clear_mem_cache();
    long live = ledger::live_array_blocks();
    c.count("worker_threads_ended", (long)th.size() + nChurn);
    if (live != live0) c.violation("C18:thread-exit:cached-blocks-not-released", what + vh::fmt(": %ld array blocks are still live after all worker threads have ended and this thread's cache was emptied", live - live0));
    if (idx < 3) c.sample(what);
  });
  c.write();
  return 0;
}
