// c09.h - fused-vs-naive differential for every expression shape (C09)
#pragma once
#include "life/life.h"
#include <memory>

namespace c09 {
using namespace life;
enum Shape { SUM_LL, SUM_LR, SUM_RL, SUM_RR, DIFF_LL, DIFF_RL, NEG_L, NEG_R, MUL_L, MUL_R, LMUL_L, LMUL_R, COMM, ACOMM, EVOLVE, FASTEVOLVE, EW_LL, EW_RL, EW_LR, EW_RR,
             DIFF_LR, DIFF_RR, COMM_RL, COMM_LR, ACOMM_RL, ACOMM_LR, EVOLVE_R, FASTEVOLVE_R, NSHAPE };
static const char* shape_name[] = {"a+b", "a+move(b)", "move(a)+b", "move(a)+move(b)", "a-b", "move(a)-b", "-a", "-move(a)", "a*s", "move(a)*s", "s*a", "s*move(a)",
                                   "iCommutator(a,b)", "ACommutator(a,b)", "a.Evolve(h,t)", "a.Evolve(table)", "EW(a,b)", "EW(move(a),b)", "EW(a,move(b))", "EW(move(a),move(b))",
                                   "a-move(b)", "move(a)-move(b)", "iCommutator(move(a),b)", "iCommutator(a,move(b))", "ACommutator(move(a),b)", "ACommutator(a,move(b))", "move(a).Evolve(h,t)", "move(a).Evolve(table)"};
enum Form { F_ASSIGN, F_ADD, F_SUB, F_CONSTRUCT, NFORM };
static const char* form_name[] = {"v=", "v+=", "v-=", "SU_vector v("};
static const unsigned Gsets[] = {0, 1, 2, 3, 7};  // none, NoAlias, EqualSizes, NoAlias|EqualSizes, all three

inline bool binary(int s) { return s <= DIFF_RL || s == COMM || s == ACOMM || (s >= EW_LL && s <= ACOMM_LR); }
// operands passed as rvalues; for the first eight shapes of each kind the library has a dedicated overload that may
// take the operand's storage, for the others (from DIFF_LR on) it has none and must leave the operand untouched
inline bool a_rvalue(int s) { return s == SUM_RL || s == SUM_RR || s == DIFF_RL || s == NEG_R || s == MUL_R || s == LMUL_R || s == EW_RL || s == EW_RR || s == DIFF_RR || s == COMM_RL || s == ACOMM_RL || s == EVOLVE_R || s == FASTEVOLVE_R; }
inline bool b_rvalue(int s) { return s == SUM_LR || s == SUM_RR || s == EW_LR || s == EW_RR || s == DIFF_LR || s == DIFF_RR || s == COMM_LR || s == ACOMM_LR; }
inline bool elementwise(int s) { return !(s == COMM || s == ACOMM || s == EVOLVE || s == FASTEVOLVE || (s >= COMM_RL && s <= FASTEVOLVE_R)); }
inline int base_shape(int s) { switch (s) { case DIFF_LR: case DIFF_RR: return DIFF_LL; case COMM_RL: case COMM_LR: return COMM; case ACOMM_RL: case ACOMM_LR: return ACOMM; case EVOLVE_R: return EVOLVE; case FASTEVOLVE_R: return FASTEVOLVE; default: return s; } }
inline double uop(double x, double y) { return x * y - 0.5 * x; }

struct Setup {
  SU_vector *pv = nullptr, *pa = nullptr, *pb = nullptr, *ph = nullptr;
  const double* table = nullptr;
  double sc = 1.0;
  std::unique_ptr<SU_vector> constructed;  // result of the construct form
};
// one function per translation unit group; returns false if the shape is not theirs
void exec_elementwise(int shape, int form, unsigned G, Setup& S);
void exec_commutators(int shape, int form, unsigned G, Setup& S);
void exec_evolution(int shape, int form, unsigned G, Setup& S);

// statement templates shared by the groups
template <unsigned G, class P> struct GW { static squids::detail::GuaranteeWrapper<G, P> wrap(const P& p) { return squids::detail::guarantee<G>(p); } };
template <class P> struct GW<0, P> { static const P& wrap(const P& p) { return p; } };

template <unsigned G, class P>
inline void stmt(int form, Setup& S, P p) {
  switch (form) {
    case F_ASSIGN: *S.pv = GW<G, P>::wrap(p); break;
    case F_ADD: *S.pv += GW<G, P>::wrap(p); break;
    case F_SUB: *S.pv -= GW<G, P>::wrap(p); break;
    default:
      if (G == 0) S.constructed.reset(new SU_vector(std::move(p)));          // the proxy constructor (may take an rvalue operand's storage)
      else S.constructed.reset(new SU_vector(squids::detail::guarantee<G>(p)));
  }
}
template <class P>
inline void stmt_g(int form, unsigned G, Setup& S, P p) {
  switch (G) {
    case 0: stmt<0, P>(form, S, p); break; case 1: stmt<1, P>(form, S, p); break; case 2: stmt<2, P>(form, S, p); break;
    case 3: stmt<3, P>(form, S, p); break; default: stmt<7, P>(form, S, p);
  }
}
}  // namespace c09
