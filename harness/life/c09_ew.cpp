#include "life/c09.h"
namespace c09 {
void exec_elementwise(int shape, int form, unsigned G, Setup& S) {
  SU_vector &a = *S.pa, &b = S.pb ? *S.pb : *S.pa;
  using squids::ElementwiseOperation;
  switch (shape) {
    case SUM_LL: stmt_g(form, G, S, a + b); break; case SUM_LR: stmt_g(form, G, S, a + std::move(b)); break;
    case SUM_RL: stmt_g(form, G, S, std::move(a) + b); break; case SUM_RR: stmt_g(form, G, S, std::move(a) + std::move(b)); break;
    case DIFF_LL: stmt_g(form, G, S, a - b); break; case DIFF_RL: stmt_g(form, G, S, std::move(a) - b); break;
    case DIFF_LR: stmt_g(form, G, S, a - std::move(b)); break; case DIFF_RR: stmt_g(form, G, S, std::move(a) - std::move(b)); break;
    case NEG_L: stmt_g(form, G, S, -a); break; case NEG_R: stmt_g(form, G, S, -std::move(a)); break;
    case MUL_L: stmt_g(form, G, S, a * S.sc); break; case MUL_R: stmt_g(form, G, S, std::move(a) * S.sc); break;
    case LMUL_L: stmt_g(form, G, S, S.sc * a); break; case LMUL_R: stmt_g(form, G, S, S.sc * std::move(a)); break;
    case EW_LL: stmt_g(form, G, S, ElementwiseOperation(uop, a, b)); break; case EW_RL: stmt_g(form, G, S, ElementwiseOperation(uop, std::move(a), b)); break;
    case EW_LR: stmt_g(form, G, S, ElementwiseOperation(uop, a, std::move(b))); break; case EW_RR: stmt_g(form, G, S, ElementwiseOperation(uop, std::move(a), std::move(b))); break;
  }
}
}
