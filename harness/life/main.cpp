// h_life: storage, expression and fault monitors (C08 C09 C14 C15 C16); linked with the allocation ledger
#include "life/life.h"
int main(int argc, char** argv) {
  vh::Args a = vh::parse_args(argc, argv);
  vh::Ctx c(a);
  if (a.prop == "C08") run_C08(c);
  else if (a.prop == "C09") run_C09(c);
  else if (a.prop == "C14") run_C14(c);
  else if (a.prop == "C15") run_C15(c);
  else if (a.prop == "C16") run_C16(c);
  else { fprintf(stderr, "h_life: unknown property %s\n", a.prop.c_str()); return 2; }
  c.write();
  return 0;
}
