// C16 - an allocation failure anywhere leaves every vector valid and memory uncorrupted
#include "life/life.h"
#include <SQuIDS/const.h>
#include <functional>
#include <memory>
using namespace life;

namespace {
struct Scene {
  unsigned dt, ds;
  std::unique_ptr<SU_vector> T, A, B, X, E;  // target, two operands (dim ds), bystander (owned), bystander (external)
  std::unique_ptr<SU_vector> R;              // result slot for constructing operations
  std::unique_ptr<UserBuf> ebuf;
  Vec t0, a0, b0, x0, e0;
  SU_vector* Hd = nullptr;                   // diagonal operator of dim ds (owned by hd)
  std::unique_ptr<SU_vector> hd;
  squids::Const kst;
  gsl_matrix_complex* U = nullptr;
  double* tbl = nullptr; std::unique_ptr<UserBuf> tblbuf;
  ~Scene() { if (U) gsl_matrix_complex_free(U); }
};
typedef std::function<void(Scene&)> Fn;
struct Op { const char* name; bool target_is_T; bool consumes_A; int tkind; Fn fn; };  // tkind: 0 empty target, 1 owned other size, 2 owned same size
double uop(double x, double y) { return x - 2 * y; }
// a user operation that needs memory for every element (the allocation cannot be optimised away: it escapes)
void* volatile aop_sink;
struct AllocatingOp {
  double operator()(double x, double y) const { std::unique_ptr<double> p(new double(x - 2 * y)); aop_sink = p.get(); return *p; }
};

std::vector<Op> catalogue() {
  using squids::iCommutator; using squids::ACommutator; using squids::ElementwiseProduct; using squids::ElementwiseOperation;
  std::vector<Op> o;
#define OP(name, tgt, cons, tk, body) o.push_back(Op{name, tgt, cons, tk, [](Scene& s) { body; }})
  // constructors
  OP("SU_vector(dim)", false, false, 1, s.R.reset(new SU_vector(s.ds)));
  OP("copy-construct(owned)", false, false, 1, s.R.reset(new SU_vector(*s.A)));
  OP("copy-construct(external)", false, false, 1, s.R.reset(new SU_vector(*s.E)));
  OP("SU_vector(list)", false, false, 1, s.R.reset(new SU_vector(s.a0)));
  OP("SU_vector(gsl matrix)", false, false, 1, { auto m = s.A->GetGSLMatrix(); s.R.reset(new SU_vector(m.get())); });
  OP("construct-from-sum", false, false, 1, s.R.reset(new SU_vector(*s.A + *s.B)));
  OP("construct-from-commutator", false, false, 1, s.R.reset(new SU_vector(iCommutator(*s.A, *s.B))));
  OP("construct-from-evolve", false, false, 1, s.R.reset(new SU_vector(s.A->Evolve(*s.Hd, 0.4))));
  OP("construct-from-fast-evolve", false, false, 1, s.R.reset(new SU_vector(s.A->Evolve(s.tbl))));
  OP("construct-from-elementwise-allocating-functor", false, false, 1, s.R.reset(new SU_vector(ElementwiseOperation(AllocatingOp(), *s.A, *s.B))));
  OP("construct-from-elementwise-allocating-functor(rvalue operand)", false, true, 1, s.R.reset(new SU_vector(ElementwiseOperation(AllocatingOp(), std::move(*s.A), *s.B))));
  OP("make_aligned", false, false, 1, s.R.reset(new SU_vector(SU_vector::make_aligned(s.ds))));
  OP("Projector", false, false, 1, s.R.reset(new SU_vector(SU_vector::Projector(s.ds, 1))));
  OP("Identity", false, false, 1, s.R.reset(new SU_vector(SU_vector::Identity(s.ds))));
  OP("Generator", false, false, 1, s.R.reset(new SU_vector(SU_vector::Generator(s.ds, 2))));
  OP("PosProjector", false, false, 1, s.R.reset(new SU_vector(SU_vector::PosProjector(s.ds, 1))));
  OP("NegProjector", false, false, 1, s.R.reset(new SU_vector(SU_vector::NegProjector(s.ds, 1))));
  // assignments that must obtain new storage
  for (int tk = 0; tk < 3; tk++) {
    o.push_back(Op{tk == 0 ? "copy-assign(empty target)" : tk == 1 ? "copy-assign(resizing)" : "copy-assign(same size)", true, false, tk, [](Scene& s) { *s.T = *s.A; }});
    o.push_back(Op{tk == 0 ? "T=sum(empty target)" : tk == 1 ? "T=sum(resizing)" : "T=sum(same size)", true, false, tk, [](Scene& s) { *s.T = *s.A + *s.B; }});
    o.push_back(Op{tk == 0 ? "T=negation(empty target)" : tk == 1 ? "T=negation(resizing)" : "T=negation(same size)", true, false, tk, [](Scene& s) { *s.T = -*s.A; }});
    o.push_back(Op{tk == 0 ? "T=scalar-multiple(empty target)" : tk == 1 ? "T=scalar-multiple(resizing)" : "T=scalar-multiple(same size)", true, false, tk, [](Scene& s) { *s.T = *s.A * 1.5; }});
    o.push_back(Op{tk == 0 ? "T=commutator(empty target)" : tk == 1 ? "T=commutator(resizing)" : "T=commutator(same size)", true, false, tk, [](Scene& s) { *s.T = iCommutator(*s.A, *s.B); }});
    o.push_back(Op{tk == 0 ? "T=anticommutator(empty target)" : tk == 1 ? "T=anticommutator(resizing)" : "T=anticommutator(same size)", true, false, tk, [](Scene& s) { *s.T = ACommutator(*s.A, *s.B); }});
    o.push_back(Op{tk == 0 ? "T=evolve(empty target)" : tk == 1 ? "T=evolve(resizing)" : "T=evolve(same size)", true, false, tk, [](Scene& s) { *s.T = s.A->Evolve(*s.Hd, 0.4); }});
    o.push_back(Op{tk == 0 ? "T=fast-evolve(empty target)" : tk == 1 ? "T=fast-evolve(resizing)" : "T=fast-evolve(same size)", true, false, tk, [](Scene& s) { *s.T = s.A->Evolve(s.tbl); }});
    o.push_back(Op{tk == 0 ? "T=elementwise(empty target)" : tk == 1 ? "T=elementwise(resizing)" : "T=elementwise(same size)", true, false, tk, [](Scene& s) { *s.T = ElementwiseOperation(uop, *s.A, *s.B); }});
    o.push_back(Op{tk == 0 ? "T=elementwise-allocating-functor(empty target)" : tk == 1 ? "T=elementwise-allocating-functor(resizing)" : "T=elementwise-allocating-functor(same size)", true, false, tk, [](Scene& s) { *s.T = ElementwiseOperation(AllocatingOp(), *s.A, *s.B); }});
    o.push_back(Op{tk == 0 ? "T=elementwise-allocating-functor(rvalue operand, empty target)" : tk == 1 ? "T=elementwise-allocating-functor(rvalue operand, resizing)" : "T=elementwise-allocating-functor(rvalue operand, same size)", true, true, tk, [](Scene& s) { *s.T = ElementwiseOperation(AllocatingOp(), std::move(*s.A), *s.B); }});
    o.push_back(Op{tk == 0 ? "T=rvalue-sum(empty target)" : tk == 1 ? "T=rvalue-sum(resizing)" : "T=rvalue-sum(same size)", true, true, tk, [](Scene& s) { *s.T = std::move(*s.A) + *s.B; }});
    o.push_back(Op{tk == 0 ? "T=move(empty target)" : tk == 1 ? "T=move(resizing)" : "T=move(same size)", true, true, tk, [](Scene& s) { *s.T = std::move(*s.A); }});
  }
  // aliasing targets: evaluated through a temporary
  OP("A=commutator(A,B)", false, false, 2, *s.A = iCommutator(*s.A, *s.B));
  OP("A+=commutator(A,B)", false, false, 2, *s.A += iCommutator(*s.A, *s.B));
  OP("A-=anticommutator(B,A)", false, false, 2, *s.A -= ACommutator(*s.B, *s.A));
  OP("A=A.Evolve(H,t)", false, false, 2, *s.A = s.A->Evolve(*s.Hd, 0.4));
  OP("A+=elementwise-allocating-functor(A,B)", false, false, 2, *s.A += ElementwiseOperation(AllocatingOp(), *s.A, *s.B));
  OP("T+=elementwise-allocating-functor(A,B)", true, false, 2, *s.T += ElementwiseOperation(AllocatingOp(), *s.A, *s.B));
  // chained expressions that materialise temporaries
  OP("T=(A+B)*2", true, false, 1, *s.T = (*s.A + *s.B) * 2.0);
  OP("T=-(A+B)", true, false, 1, *s.T = -(*s.A + *s.B));
  OP("T=(A+B)+(A-B)", true, false, 1, *s.T = (*s.A + *s.B) + (*s.A - *s.B));
  OP("T=(A+B)-X'", true, false, 1, *s.T = (*s.A + *s.B) - *s.B);
  OP("x=(A+B)*(A-B)", false, false, 1, { volatile double x = (*s.A + *s.B) * (*s.A - *s.B); (void)x; });
  OP("T=commutator(A,B).Evolve(H,t)", true, false, 1, *s.T = iCommutator(*s.A, *s.B).Evolve(*s.Hd, 0.3));
  OP("T=0.25*(AC(A,AC(A,B))+iC(A,iC(A,B)))", true, false, 1, *s.T = (ACommutator(*s.A, ACommutator(*s.A, *s.B)) + iCommutator(*s.A, iCommutator(*s.A, *s.B))) * 0.25);
  // member operations returning new vectors
  OP("Rotate(i,j,theta,delta)", false, false, 1, s.R.reset(new SU_vector(s.A->Rotate(0, 1, 0.3, 0.2))));
  OP("RotateToB1", false, false, 1, s.A->RotateToB1(s.kst));
  OP("RotateToB0", false, false, 1, s.A->RotateToB0(s.kst));
  OP("Real", false, false, 1, s.R.reset(new SU_vector(s.A->Real())));
  OP("Imag", false, false, 1, s.R.reset(new SU_vector(s.A->Imag())));
  OP("GetComponents", false, false, 1, { Vec v = s.A->GetComponents(); (void)v; });
  OP("Rotate(matrix)", false, false, 1, s.R.reset(new SU_vector(s.A->Rotate(s.U))));
  OP("UTransform(matrix)", false, false, 1, s.R.reset(new SU_vector(s.A->UTransform(s.U))));
  OP("UDaggerTransform(matrix)", false, false, 1, s.R.reset(new SU_vector(s.A->UDaggerTransform(s.U))));
  OP("UTransform(vector,scale)", false, false, 1, s.R.reset(new SU_vector(s.A->UTransform(*s.B, gsl_complex_rect(0, 0.3)))));
  OP("WeightedRotation(Const)", false, false, 1, s.A->WeightedRotation(s.kst, *s.Hd, s.kst));
  OP("WeightedRotation(matrix)", false, false, 1, s.A->WeightedRotation(s.U, *s.Hd, s.U));
  OP("GetEigenSystem", false, false, 1, { auto es = s.A->GetEigenSystem(); (void)es; });
  OP("SetBackingStore-then-copy", false, false, 1, { SU_vector tmp(*s.A); tmp.SetBackingStore(s.ebuf->p); s.R.reset(new SU_vector(tmp)); });
#undef OP
  return o;
}

void build(Scene& s, vh::Rng& r, const Op& op, unsigned dt, unsigned ds, int primed) {
  SU_vector::clear_mem_cache();
  if (primed == 1) {  // leave blocks of both dimensions in the cache
    for (int k = 0; k < 3; k++) { SU_vector p1(dt), p2(ds); (void)p1; (void)p2; }
  }
  if (primed == 2) {  // fill the cache of both dimensions completely: the next release bypasses it
    std::vector<SU_vector> f1, f2;
    for (int k = 0; k < 36; k++) { f1.emplace_back(dt); f2.emplace_back(ds); }
  }
  s.dt = dt; s.ds = ds;
  s.t0 = rand_vec(r, dt); s.a0 = rand_vec(r, ds); s.b0 = rand_vec(r, ds); s.x0 = rand_vec(r, dt); s.e0 = rand_vec(r, ds);
  if (op.tkind == 0) { s.T.reset(new SU_vector()); s.t0.clear(); }
  else if (op.tkind == 1) s.T.reset(new SU_vector(s.t0));
  else { s.t0 = rand_vec(r, ds); s.T.reset(new SU_vector(s.t0)); }
  s.A.reset(new SU_vector(s.a0)); s.B.reset(new SU_vector(s.b0)); s.X.reset(new SU_vector(s.x0));
  s.ebuf.reset(new UserBuf((size_t)ds * ds)); s.ebuf->fill(s.e0); s.E.reset(new SU_vector(ds, s.ebuf->p));
  s.hd.reset(new SU_vector(ds)); for (unsigned l = 1; l < ds; l++) (*s.hd)[ds * l + l] = 0.3 * l; s.Hd = s.hd.get();
  s.tblbuf.reset(new UserBuf((size_t)ds * (ds - 1))); s.tbl = s.tblbuf->p; s.Hd->PrepareEvolve(s.tbl, 0.4);
  for (unsigned j = 1; j < 6; j++) for (unsigned i = 0; i < j; i++) { s.kst.SetMixingAngle(i, j, 0.1 * (i + j)); s.kst.SetPhase(i, j, 0.05 * j); }
  s.U = gsl_matrix_complex_calloc(ds, ds);
  for (unsigned i = 0; i < ds; i++) gsl_matrix_complex_set(s.U, i, (i + 1) % ds, gsl_complex_rect(1, 0));  // a permutation matrix
  s.R.reset();
}

// ownership invariants on the flags themselves (H3): no block both cached and owned, no two owners
void flag_invariants(vh::Ctx& c, Scene& s, const std::string& what) {
  std::vector<const void*> cached;
  access::cached_blocks(cached);
  SU_vector* vs[6] = {s.T.get(), s.A.get(), s.B.get(), s.X.get(), s.E.get(), s.R.get()};
  const char* nm[6] = {"target", "A", "B", "bystander", "external bystander", "result"};
  const void* owned[6]; int no = 0;
  for (int i = 0; i < 6; i++) {
    if (!vs[i]) continue;
    auto p = access::peek(*vs[i]);
    if (!p.isinit) continue;
    const void* base = p.components - p.ptr_offset;
    for (auto q : cached) if (q == base) { c.violation("C16:block-both-cached-and-owned", what + ": " + nm[i]); return; }
    if (!ledger::is_live_array(base)) { c.violation("C16:owner-of-released-block", what + ": " + nm[i]); return; }
    for (int k = 0; k < no; k++) if (owned[k] == base) { c.violation("C16:two-owners-of-one-block", what + ": " + nm[i]); return; }
    owned[no++] = base;
  }
  // a vector that owns nothing (the externally backed bystander aside) must not keep referring to storage that
  // another vector owns or that the cache holds: its next same-size assignment would write into it
  std::vector<const void*> cstore;
  access::cached_storage(cstore);
  for (int i = 0; i < 6; i++) {
    if (!vs[i] || vs[i] == s.E.get()) continue;
    auto p = access::peek(*vs[i]);
    if (p.isinit || !p.components) continue;
    for (int j = 0; j < 6; j++) {
      if (j == i || !vs[j]) continue;
      auto q = access::peek(*vs[j]);
      if (q.isinit && q.components == p.components) { c.violation("C16:non-owner-still-refers-to-owned-block", what + ": " + nm[i] + " refers to the storage of " + nm[j]); return; }
    }
    for (auto q : cstore) if (q == p.components) { c.violation("C16:non-owner-still-refers-to-cached-block", what + ": " + nm[i]); return; }
  }
  // cached blocks are live and distinct
  for (size_t i = 0; i < cached.size(); i++) {
    if (!ledger::is_live_array(cached[i])) { c.violation("C16:cache-holds-released-block", what); return; }
    for (size_t k = 0; k < i; k++) if (cached[k] == cached[i]) { c.violation("C16:block-cached-twice", what); return; }
  }
}
}  // namespace

void run_C16(vh::Ctx& c) {
  auto ops = catalogue();
  static const unsigned dimpairs[][2] = {{2, 3}, {3, 2}, {4, 6}, {6, 5}, {5, 4}, {3, 3}};
  const int NP = 6;
  long total = (long)ops.size() * NP * 3;
  vh::run_cases(c, 16, total, [&](long idx, vh::Rng& r0) {
    const Op& op = ops[idx / (NP * 3)];
    int pi = (int)((idx / 3) % NP); int primed = (int)(idx % 3);
    unsigned dt = dimpairs[pi][0], ds = dimpairs[pi][1];
    std::string base = vh::fmt("%s target dim %u, operand dim %u, cache %s", op.name, dt, ds, primed == 0 ? "empty" : primed == 1 ? "primed" : "full");
    c.desc(base);
    c.count(std::string("op.") + op.name);
    long live_before_case = ledger::live_array_blocks();
    // pass 0 counts the allocation points; pass k fails exactly the k-th
    long n = 0;
    for (long k = 0; k <= n; k++) {
      vh::Rng r = r0;  // the same pre-state every time
      std::string what = base + (k ? vh::fmt(", failing allocation %ld of %ld", k, n) : ", counting pass");
      c.desc(what);
      {
        Scene s;
        build(s, r, op, dt, ds, primed);
        bool threw_bad_alloc = false, threw_other = false; std::string other;
        ledger::begin_window(k);
        try { op.fn(s); }
        catch (std::bad_alloc&) { threw_bad_alloc = true; }
        catch (std::exception& e) { threw_other = true; other = e.what(); }
        long seen = ledger::end_window();
        bool fired = ledger::fault_fired();
        if (k == 0) {
          n = seen;
          c.count("allocation_points", n);
          if (threw_bad_alloc || threw_other) { c.violation("C16:harness:counting-pass-threw", what + " " + other); return; }
          c.nontrivial(vh::fnv_str(base));
        } else {
          c.eval(); c.count("injections");
          if (!fired) { c.count("injection_not_reached"); }
          else if (threw_other) c.violation("C16:wrong-exception-type", what + ": " + other);
          else if (!threw_bad_alloc) c.violation("C16:bad_alloc-swallowed", what);
          c.nontrivial(vh::fnv_str(what));
        }
        drain_ledger_errors(c, "C16", what);
        if (k > 0 && fired) {
          flag_invariants(c, s, what);
          // every pre-existing vector other than the assignment target keeps its value
          auto same = [&](const std::unique_ptr<SU_vector>& v, const Vec& want, unsigned d) { return v->Dim() == d && same_bits(comps(*v), want); };
          std::string nm_(op.name);
          bool a_is_target = nm_.compare(0, 1, "A") == 0 || nm_.compare(0, 8, "RotateTo") == 0 || nm_.compare(0, 16, "WeightedRotation") == 0;
          if (!op.consumes_A && !a_is_target && !same(s.A, s.a0, ds)) c.violation("C16:operand-changed", what + ": A");
          if (!same(s.B, s.b0, ds)) c.violation("C16:operand-changed", what + ": B");
          if (!same(s.X, s.x0, dt)) c.violation("C16:bystander-changed", what);
          if (!same(s.E, s.e0, ds) || &(*s.E)[0] != s.ebuf->p || !s.ebuf->intact()) c.violation("C16:external-bystander-changed", what);
          if (!op.target_is_T && !(s.t0.empty() ? s.T->Dim() == 0 : same(s.T, s.t0, (unsigned)std::lround(std::sqrt((double)s.t0.size()))))) c.violation("C16:bystander-changed", what + ": T");
        }
        // every vector, including the target, can still be reassigned and destroyed
        {
          SU_vector src_t(s.x0), src_s(s.b0);
          *s.T = src_t; *s.A = src_s; *s.X = src_t; *s.E = src_s;
          if (s.R) *s.R = src_s;
          if (!same_bits(comps(*s.T), s.x0) || !same_bits(comps(*s.A), s.b0) || !same_bits(comps(*s.E), s.b0)) c.violation("C16:reassignment-lost-value", what);
          *s.B = std::move(*s.A);
          drain_ledger_errors(c, "C16", what + " (reassignment)");
        }
      }  // scene destroyed
      drain_ledger_errors(c, "C16", what + " (destruction)");
      SU_vector::clear_mem_cache();
      drain_ledger_errors(c, "C16", what + " (cache drain)");
      long live = ledger::live_array_blocks();
      if (live != live_before_case) {
        c.violation("C16:leak", what + vh::fmt(": %ld array blocks still live after everything was destroyed and the cache emptied", live - live_before_case));
        live_before_case = live;  // report once per occurrence
      }
    }
    if (idx % 41 == 0) c.sample(base + vh::fmt(": %ld allocation points", n));
  });
}
