// C14 - mismatched or unsupported dimensions are rejected before any read or write
#include "life/life.h"
#include <functional>
using namespace life;

namespace {
struct Aux { SU_vector* Hb; double* bufb; SU_vector* T; gsl_matrix_complex* mB; };
typedef std::function<void(SU_vector&, SU_vector&, Aux&)> Fn;
struct Entry { const char* name; Fn fn; };
double uop(double x, double y) { return x * y + 1; }

std::vector<Entry> entries() {
  using squids::iCommutator; using squids::ACommutator; using squids::ElementwiseProduct; using squids::ElementwiseOperation;
  std::vector<Entry> e;
  e.push_back({"sum(lvalue,lvalue)", [](SU_vector& A, SU_vector& B, Aux&) { SU_vector r = A + B; (void)r; }});
  e.push_back({"sum(lvalue,rvalue)", [](SU_vector& A, SU_vector& B, Aux&) { SU_vector r = A + std::move(B); (void)r; }});
  e.push_back({"sum(rvalue,lvalue)", [](SU_vector& A, SU_vector& B, Aux&) { SU_vector r = std::move(A) + B; (void)r; }});
  e.push_back({"sum(rvalue,rvalue)", [](SU_vector& A, SU_vector& B, Aux&) { SU_vector r = std::move(A) + std::move(B); (void)r; }});
  e.push_back({"difference(lvalue,lvalue)", [](SU_vector& A, SU_vector& B, Aux&) { SU_vector r = A - B; (void)r; }});
  e.push_back({"difference(rvalue,lvalue)", [](SU_vector& A, SU_vector& B, Aux&) { SU_vector r = std::move(A) - B; (void)r; }});
  e.push_back({"scalar-product", [](SU_vector& A, SU_vector& B, Aux&) { volatile double x = A * B; (void)x; }});
  e.push_back({"SUTrace-via-operator(reversed)", [](SU_vector& A, SU_vector& B, Aux&) { volatile double x = B * A; (void)x; }});
  e.push_back({"iCommutator", [](SU_vector& A, SU_vector& B, Aux&) { SU_vector r = iCommutator(A, B); (void)r; }});
  e.push_back({"ACommutator", [](SU_vector& A, SU_vector& B, Aux&) { SU_vector r = ACommutator(A, B); (void)r; }});
  e.push_back({"ElementwiseProduct(lvalue,lvalue)", [](SU_vector& A, SU_vector& B, Aux&) { SU_vector r = ElementwiseProduct(A, B); (void)r; }});
  e.push_back({"ElementwiseProduct(rvalue,lvalue)", [](SU_vector& A, SU_vector& B, Aux&) { SU_vector r = ElementwiseProduct(std::move(A), B); (void)r; }});
  e.push_back({"ElementwiseProduct(lvalue,rvalue)", [](SU_vector& A, SU_vector& B, Aux&) { SU_vector r = ElementwiseProduct(A, std::move(B)); (void)r; }});
  e.push_back({"ElementwiseProduct(rvalue,rvalue)", [](SU_vector& A, SU_vector& B, Aux&) { SU_vector r = ElementwiseProduct(std::move(A), std::move(B)); (void)r; }});
  e.push_back({"ElementwiseOperation(lvalue,lvalue)", [](SU_vector& A, SU_vector& B, Aux&) { SU_vector r = ElementwiseOperation(uop, A, B); (void)r; }});
  e.push_back({"ElementwiseOperation(rvalue,lvalue)", [](SU_vector& A, SU_vector& B, Aux&) { SU_vector r = ElementwiseOperation(uop, std::move(A), B); (void)r; }});
  e.push_back({"ElementwiseOperation(lvalue,rvalue)", [](SU_vector& A, SU_vector& B, Aux&) { SU_vector r = ElementwiseOperation(uop, A, std::move(B)); (void)r; }});
  e.push_back({"ElementwiseOperation(rvalue,rvalue)", [](SU_vector& A, SU_vector& B, Aux&) { SU_vector r = ElementwiseOperation(uop, std::move(A), std::move(B)); (void)r; }});
  e.push_back({"A+=B", [](SU_vector& A, SU_vector& B, Aux&) { A += B; }});
  e.push_back({"A-=B", [](SU_vector& A, SU_vector& B, Aux&) { A -= B; }});
  // compound assignment with every proxy kind built from vectors of B's dimension
  e.push_back({"A+=sum", [](SU_vector& A, SU_vector& B, Aux&) { A += B + B; }});
  e.push_back({"A-=sum", [](SU_vector& A, SU_vector& B, Aux&) { A -= B + B; }});
  e.push_back({"A+=difference", [](SU_vector& A, SU_vector& B, Aux&) { A += B - B; }});
  e.push_back({"A-=negation", [](SU_vector& A, SU_vector& B, Aux&) { A -= -B; }});
  e.push_back({"A+=scalar-multiple", [](SU_vector& A, SU_vector& B, Aux&) { A += B * 2.0; }});
  e.push_back({"A-=scalar-multiple(left)", [](SU_vector& A, SU_vector& B, Aux&) { A -= 2.0 * B; }});
  e.push_back({"A+=iCommutator", [](SU_vector& A, SU_vector& B, Aux&) { A += iCommutator(B, B); }});
  e.push_back({"A-=ACommutator", [](SU_vector& A, SU_vector& B, Aux&) { A -= ACommutator(B, B); }});
  e.push_back({"A+=Evolve(op,t)", [](SU_vector& A, SU_vector& B, Aux& x) { A += B.Evolve(*x.Hb, 0.3); }});
  e.push_back({"A-=Evolve(buffer)", [](SU_vector& A, SU_vector& B, Aux& x) { A -= B.Evolve(x.bufb); }});
  e.push_back({"A+=ElementwiseProduct", [](SU_vector& A, SU_vector& B, Aux&) { A += ElementwiseProduct(B, B); }});
  // the same under a (true) optimisation guarantee that does NOT assert equal sizes: the size check must survive it
  {
    using squids::detail::guarantee; using squids::detail::NoAlias;
    e.push_back({"A+=guarantee<NoAlias>(sum)", [](SU_vector& A, SU_vector& B, Aux&) { A += guarantee<NoAlias>(B + B); }});
    e.push_back({"A-=guarantee<NoAlias>(difference)", [](SU_vector& A, SU_vector& B, Aux&) { A -= guarantee<NoAlias>(B - B); }});
    e.push_back({"A+=guarantee<NoAlias>(scalar-multiple)", [](SU_vector& A, SU_vector& B, Aux&) { A += guarantee<NoAlias>(B * 2.0); }});
    e.push_back({"A-=guarantee<NoAlias>(iCommutator)", [](SU_vector& A, SU_vector& B, Aux&) { A -= guarantee<NoAlias>(iCommutator(B, B)); }});
    e.push_back({"A+=guarantee<NoAlias>(ACommutator)", [](SU_vector& A, SU_vector& B, Aux&) { A += guarantee<NoAlias>(ACommutator(B, B)); }});
    e.push_back({"A-=guarantee<NoAlias>(Evolve(buffer))", [](SU_vector& A, SU_vector& B, Aux& x) { A -= guarantee<NoAlias>(B.Evolve(x.bufb)); }});
    e.push_back({"A+=guarantee<NoAlias>(ElementwiseProduct)", [](SU_vector& A, SU_vector& B, Aux&) { A += guarantee<NoAlias>(ElementwiseProduct(B, B)); }});
  }
  // expressions whose operands are themselves expressions
  e.push_back({"(A+A)+B", [](SU_vector& A, SU_vector& B, Aux&) { SU_vector r = (A + A) + B; (void)r; }});
  e.push_back({"(A-A)-B", [](SU_vector& A, SU_vector& B, Aux&) { SU_vector r = (A - A) - B; (void)r; }});
  e.push_back({"(A+A)+(B+B)", [](SU_vector& A, SU_vector& B, Aux&) { SU_vector r = (A + A) + (B + B); (void)r; }});
  e.push_back({"(A*2)-(B*2)", [](SU_vector& A, SU_vector& B, Aux&) { SU_vector r = (A * 2.0) - (B * 2.0); (void)r; }});
  e.push_back({"(A+A)*(B+B)", [](SU_vector& A, SU_vector& B, Aux&) { volatile double x = (A + A) * (B + B); (void)x; }});
  e.push_back({"(A+A).Evolve(B,t)", [](SU_vector& A, SU_vector& B, Aux&) { SU_vector r = (A + A).Evolve(B, 0.3); (void)r; }});
  e.push_back({"(A+A).Evolve(B+B,t)", [](SU_vector& A, SU_vector& B, Aux&) { SU_vector r = (A + A).Evolve(B + B, 0.3); (void)r; }});
  e.push_back({"iCommutator(A,iCommutator(B,B))", [](SU_vector& A, SU_vector& B, Aux&) { SU_vector r = iCommutator(A, iCommutator(B, B)); (void)r; }});
  e.push_back({"T=A;T=iCommutator(T,B)", [](SU_vector& A, SU_vector& B, Aux& x) { SU_vector t2(A); t2 = iCommutator(t2, B); (void)x; }});
  // time evolution of A by an operator of another dimension
  e.push_back({"construct-from-A.Evolve(B,t)", [](SU_vector& A, SU_vector& B, Aux&) { SU_vector r = A.Evolve(B, 0.3); (void)r; }});
  e.push_back({"T=A.Evolve(B,t)", [](SU_vector& A, SU_vector& B, Aux& x) { *x.T = A.Evolve(B, 0.3); }});
  e.push_back({"T+=A.Evolve(B,t)", [](SU_vector& A, SU_vector& B, Aux& x) { *x.T += A.Evolve(B, 0.3); }});
  e.push_back({"(A.Evolve(B,t))*2", [](SU_vector& A, SU_vector& B, Aux&) { SU_vector r = A.Evolve(B, 0.3) * 2.0; (void)r; }});
  // rotation by a matrix of another dimension
  e.push_back({"A.Rotate(matrix)", [](SU_vector& A, SU_vector&, Aux& x) { SU_vector r = A.Rotate(x.mB); (void)r; }});
  return e;
}

struct Operand {
  std::unique_ptr<SU_vector> v; std::unique_ptr<UserBuf> buf; Vec vals; unsigned d;
  void make(vh::Rng& r, unsigned d_, bool ext) {
    d = d_; vals = rand_vec(r, d);
    if (ext) { buf.reset(new UserBuf((size_t)d * d)); buf->fill(vals); v.reset(new SU_vector(d, buf->p)); }
    else { v.reset(new SU_vector(vals)); }
  }
  bool unchanged() const { return v->Dim() == d && same_bits(comps(*v), vals) && (!buf || (&(*v)[0] == buf->p && buf->intact())); }
};

template <class F>
void must_throw(vh::Ctx& c, const std::string& key, const std::string& what, F f) {
  c.eval();
  c.desc(what);
  bool threw = false;
  try { f(); } catch (std::exception&) { threw = true; }
  if (!threw) c.violation(key, what + " was accepted");
}
}  // namespace

void run_C14(vh::Ctx& c) {
  auto ents = entries();
  long NE = (long)ents.size();
  long B = NE * 20 * 2;  // entry x ordered pair (d1!=d2) x storage kind
  long CT = 9;           // constructor / factory groups
  vh::run_cases(c, 14, B + CT, [&](long idx, vh::Rng& r) {
    if (idx < B) {
      int e = (int)(idx / 40), rest = (int)(idx % 40);
      bool ext = rest % 2; int pr = rest / 2;
      unsigned d1 = 2 + pr / 4, k = pr % 4, d2 = 2 + k + (2 + k >= d1 ? 1 : 0);
      std::string what = vh::fmt("%s with dim(A)=%u dim(B)=%u, operands %s", ents[e].name, d1, d2, ext ? "externally backed on exact-size heap blocks" : "library owned");
      c.desc(what);
      c.count(std::string("entry.") + ents[e].name); c.count(ext ? "storage.external" : "storage.owned");
      c.nontrivial(vh::fnv_str(what));
      Operand A, Bo, T;
      A.make(r, d1, ext); Bo.make(r, d2, ext); T.make(r, d1, false);
      SU_vector Hb(d2); for (unsigned l = 1; l < d2; l++) Hb[d2 * l + l] = r.normal();
      UserBuf tb((size_t)d2 * (d2 - 1));
      Hb.PrepareEvolve(tb.p, 0.7);
      gsl_matrix_complex* mB = gsl_matrix_complex_calloc(d2, d2);
      for (unsigned i = 0; i < d2; i++) gsl_matrix_complex_set(mB, i, i, gsl_complex_rect(1, 0));
      Aux aux{&Hb, tb.p, T.v.get(), mB};
      bool threw = false; std::string msg;
      c.eval();
      try { ents[e].fn(*A.v, *Bo.v, aux); } catch (std::exception& ex) { threw = true; msg = ex.what(); }
      gsl_matrix_complex_free(mB);
      if (!threw) c.violation(std::string("C14:binary:") + ents[e].name + ":no-exception", what);
      if (!A.unchanged() || !Bo.unchanged()) c.violation(std::string("C14:binary:") + ents[e].name + ":operand-modified", what + vh::fmt(" (A %s, B %s)", A.unchanged() ? "intact" : "changed", Bo.unchanged() ? "intact" : "changed"));
      if (!T.unchanged()) c.violation(std::string("C14:binary:") + ents[e].name + ":target-modified", what);
      if (idx % 97 == 0) c.sample(what + (threw ? " -> exception: " + msg : " -> no exception"));
      return;
    }
    int g = (int)(idx - B);
    c.count("ctor_groups");
    static const unsigned bad_dims[] = {1, 7, 8};
    UserBuf big(64);
    switch (g) {
      case 0: for (unsigned d : bad_dims) must_throw(c, vh::fmt("C14:ctor:SU_vector(dim):accepted:%u", d), vh::fmt("SU_vector(%u)", d), [&] { SU_vector v(d); }); break;
      case 1: for (unsigned d : bad_dims) must_throw(c, vh::fmt("C14:ctor:SU_vector(dim,ptr):accepted:%u", d), vh::fmt("SU_vector(%u, buffer)", d), [&] { SU_vector v(d, big.p); }); break;
      case 2: for (unsigned d : bad_dims) {
          must_throw(c, vh::fmt("C14:ctor:make_aligned:accepted:%u", d), vh::fmt("SU_vector::make_aligned(%u)", d), [&] { SU_vector v = SU_vector::make_aligned(d); });
          must_throw(c, vh::fmt("C14:ctor:make_aligned:accepted:%u", d), vh::fmt("SU_vector::make_aligned(%u,false)", d), [&] { SU_vector v = SU_vector::make_aligned(d, false); });
        } break;
      case 3: for (unsigned d : bad_dims) {
          must_throw(c, vh::fmt("C14:factory:Identity:accepted-dim:%u", d), vh::fmt("Identity(%u)", d), [&] { SU_vector v = SU_vector::Identity(d); });
          must_throw(c, vh::fmt("C14:factory:Projector:accepted-dim:%u", d), vh::fmt("Projector(%u,0)", d), [&] { SU_vector v = SU_vector::Projector(d, 0); });
          must_throw(c, vh::fmt("C14:factory:PosProjector:accepted-dim:%u", d), vh::fmt("PosProjector(%u,0)", d), [&] { SU_vector v = SU_vector::PosProjector(d, 0); });
          must_throw(c, vh::fmt("C14:factory:NegProjector:accepted-dim:%u", d), vh::fmt("NegProjector(%u,0)", d), [&] { SU_vector v = SU_vector::NegProjector(d, 0); });
          must_throw(c, vh::fmt("C14:factory:Generator:accepted-dim:%u", d), vh::fmt("Generator(%u,0)", d), [&] { SU_vector v = SU_vector::Generator(d, 0); });
        } break;
      case 4: for (unsigned d = 2; d <= 6; d++) for (unsigned i = d; i <= d * d + 2; i++) {
          must_throw(c, "C14:factory:Projector:accepted-index", vh::fmt("Projector(%u,%u)", d, i), [&] { SU_vector v = SU_vector::Projector(d, i); });
          must_throw(c, "C14:factory:PosProjector:accepted-index", vh::fmt("PosProjector(%u,%u)", d, i), [&] { SU_vector v = SU_vector::PosProjector(d, i); });
          must_throw(c, "C14:factory:NegProjector:accepted-index", vh::fmt("NegProjector(%u,%u)", d, i), [&] { SU_vector v = SU_vector::NegProjector(d, i); });
        } break;
      case 5: for (unsigned d = 2; d <= 6; d++) for (unsigned i = d * d; i <= d * d + 2; i++)
          must_throw(c, "C14:factory:Generator:accepted-index", vh::fmt("Generator(%u,%u)", d, i), [&] { SU_vector v = SU_vector::Generator(d, i); });
        break;
      case 6: for (unsigned n = 1; n <= 64; n++) {
          unsigned s = (unsigned)std::lround(std::sqrt((double)n));
          if (s * s == n && s >= 2 && s <= 6) continue;  // supported squares
          must_throw(c, vh::fmt("C14:ctor:list:accepted-length:%u", n), vh::fmt("SU_vector(list of %u components)", n), [&] { Vec l(n, 0.5); SU_vector v(l); });
        } break;
      case 7: for (unsigned n1 = 1; n1 <= 7; n1++) for (unsigned n2 = 1; n2 <= 7; n2++) {
          if (n1 == n2 && n1 >= 2 && n1 <= 6) continue;
          gsl_matrix_complex* m = gsl_matrix_complex_calloc(n1, n2);
          must_throw(c, vh::fmt("C14:ctor:matrix:accepted:%ux%u", n1, n2), vh::fmt("SU_vector(%ux%u matrix)", n1, n2), [&] { SU_vector v(m); });
          gsl_matrix_complex_free(m);
        } break;
      case 8: {  // assignment-time size policy: externally backed targets cannot change size
        for (unsigned d1 = 2; d1 <= 6; d1++) for (unsigned d2 = 2; d2 <= 6; d2++) if (d1 != d2) {
          Operand T, S; T.make(r, d1, true); S.make(r, d2, false);
          must_throw(c, "C14:assign:external-target-resized:copy", vh::fmt("copy assignment of dim %u to an externally backed vector of dim %u", d2, d1), [&] { *T.v = *S.v; });
          must_throw(c, "C14:assign:external-target-resized:move", vh::fmt("move assignment of dim %u to an externally backed vector of dim %u", d2, d1), [&] { SU_vector tmp(*S.v); *T.v = std::move(tmp); });
          must_throw(c, "C14:assign:external-target-resized:expression", vh::fmt("assignment of a dim %u expression to an externally backed vector of dim %u", d2, d1), [&] { *T.v = *S.v + *S.v; });
          if (!T.unchanged() || !S.unchanged()) c.violation("C14:assign:external-target-resized:operand-modified", vh::fmt("dims %u <- %u", d1, d2));
        }
      } break;
    }
  });
}
