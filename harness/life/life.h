// life.h - shared by the storage / expression / fault monitors (C08 C09 C14 C15 C16)
#pragma once
#include <SQuIDS/SUNalg.h>
#include <SQuIDS/SQuIDS.h>
#include <SQuIDS/detail/VerifHooks.h>
#include <gsl/gsl_matrix.h>
#include "common/vh.h"
#include "common/ledger.h"

// H3: the harness-defined friend of SU_vector
namespace squids { namespace verif {
struct access {
  struct Peek { unsigned dim, size; double* components; unsigned ptr_offset; bool isinit, isinit_d; };
  static Peek peek(const SU_vector& v) { return Peek{v.dim, v.size, v.components, (v.isinit ? (unsigned)v.ptr_offset : 0u), v.isinit, v.isinit_d}; }
  // base pointers (as handed out by operator new[]) of the blocks held by this thread's cache
  static void cached_blocks(std::vector<const void*>& out) {
    for (unsigned d = 0; d <= SQUIDS_MAX_HILBERT_DIM; d++)
      SU_vector::storage_cache[d].verif_for_each([&out](const SU_vector::mem_cache_entry& e) { out.push_back(e.storage - e.offset); });
  }
  // the (aligned) storage pointers of the cached blocks, i.e. what a vector's `components` would equal
  static void cached_storage(std::vector<const void*>& out) {
    for (unsigned d = 0; d <= SQUIDS_MAX_HILBERT_DIM; d++)
      SU_vector::storage_cache[d].verif_for_each([&out](const SU_vector::mem_cache_entry& e) { out.push_back(e.storage); });
  }
};
}}  // namespace squids::verif

namespace life {
using squids::SU_vector;
using squids::verif::access;
typedef std::vector<double> Vec;
static const double EPS = 2.220446049250313e-16;

// an exact-size user buffer on the heap: ASan sees the first byte past it.  `misalign` shifts the
// start by that many doubles from a 32-byte boundary (0 = 32-byte aligned start).
struct UserBuf {
  void* raw = nullptr; double* p = nullptr; size_t n = 0;
  std::vector<double> image;  // what the model says it contains
  UserBuf() {}
  UserBuf(size_t n_, int misalign = 0) { alloc(n_, misalign); }
  UserBuf(const UserBuf&) = delete;
  UserBuf& operator=(const UserBuf&) = delete;
  void alloc(size_t n_, int misalign = 0) {
    release(); n = n_;
    // the block ends exactly at the last double
    size_t bytes = (size_t)misalign * 8 + n * 8;
    if (posix_memalign(&raw, 32, bytes ? bytes : 8) != 0) abort();
    p = (double*)raw + misalign;
    image.assign(n, 0.0);
  }
  void release() { if (raw) free(raw); raw = nullptr; p = nullptr; n = 0; }
  ~UserBuf() { release(); }
  void fill(const Vec& v) { for (size_t i = 0; i < n && i < v.size(); i++) { p[i] = v[i]; image[i] = v[i]; } }
  bool intact() const { return memcmp(p, image.data(), n * 8) == 0; }
  bool contains(const double* q) const { return q >= p && q < p + n; }
};

inline Vec rand_vec(vh::Rng& r, unsigned d) { Vec v((size_t)d * d); for (auto& x : v) x = r.coin(0.1) ? (double)r.range(-3, 3) : r.normal(); return v; }
inline Vec comps(const SU_vector& v) { Vec c(v.Size()); for (unsigned i = 0; i < v.Size(); i++) c[i] = v[i]; return c; }
inline bool same_bits(const Vec& a, const Vec& b) { return a.size() == b.size() && (a.empty() || memcmp(a.data(), b.data(), a.size() * 8) == 0); }
// storage is "ideally aligned" in the library's sense: even size -> components 32-byte aligned,
// odd size (>1) -> second component 32-byte aligned
inline bool ideally_aligned(const SU_vector& v) { if (v.Size() == 0) return false; const double* c = &v[0]; return ((uintptr_t)(c + v.Size() % 2)) % 32 == 0; }

// ledger errors -> violations
inline void drain_ledger_errors(vh::Ctx& c, const std::string& prop, const std::string& what) {
  for (auto& e : ledger::take_errors()) c.violation(prop + ":ledger:" + (strstr(e.kind, "scalar") ? "form-mismatch" : "free-of-non-live-block"), what + ": " + e.kind);
}
}  // namespace life

void run_C08(vh::Ctx&); void run_C09(vh::Ctx&); void run_C14(vh::Ctx&); void run_C15(vh::Ctx&); void run_C16(vh::Ctx&);
