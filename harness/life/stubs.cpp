#include "life/life.h"
void run_C09(vh::Ctx&){}
