#include "life/life.h"
void run_C08(vh::Ctx&){} void run_C09(vh::Ctx&){} void run_C15(vh::Ctx&){}
