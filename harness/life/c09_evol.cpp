#include "life/c09.h"
namespace c09 {
void exec_evolution(int shape, int form, unsigned G, Setup& S) {
  switch (shape) {
    case EVOLVE: stmt_g(form, G, S, S.pa->Evolve(*S.ph, S.sc)); break;
    case EVOLVE_R: stmt_g(form, G, S, std::move(*S.pa).Evolve(*S.ph, S.sc)); break;
    case FASTEVOLVE: stmt_g(form, G, S, S.pa->Evolve(S.table)); break;
    default: stmt_g(form, G, S, std::move(*S.pa).Evolve(S.table));
  }
}
}
