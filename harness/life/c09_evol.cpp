#include "life/c09.h"
namespace c09 {
void exec_evolution(int shape, int form, unsigned G, Setup& S) {
  if (shape == EVOLVE) stmt_g(form, G, S, S.pa->Evolve(*S.ph, S.sc));
  else stmt_g(form, G, S, S.pa->Evolve(S.table));
}
}
