// interp.cpp - history interpreter with a shadow ownership model.
//   C08: value semantics (copies independent, moves leave a safe source, user storage respected)
//   C15: the same histories with a wider catalogue (conversions, rotations, transforms, solver
//        objects, throwing calls) judged only by the generic oracles (sanitizers, ledger)
#include "life/life.h"
#include <SQuIDS/const.h>
#include <memory>
#include <sstream>
#include <algorithm>
using namespace life;

namespace {
enum Kind { DEAD, EMPTY, OWNED, EXT, UNSPEC };
const char* kname[] = {"dead", "empty", "owned", "external", "unspecified"};
struct Slot { std::unique_ptr<SU_vector> v; Kind k = DEAD; unsigned d = 0; Vec vals; int buf = -1; };

struct World {
  vh::Ctx& c; vh::Rng& r; std::string prop; bool extended;
  std::vector<Slot> s;
  std::vector<std::unique_ptr<UserBuf>> bufs;
  std::string hist;
  bool dead_end = false;  // a violation made the model unreliable: stop this history
  long steps = 0;
  World(vh::Ctx& c_, vh::Rng& r_, const std::string& p, bool ext) : c(c_), r(r_), prop(p), extended(ext) {}

  void viol(const std::string& key, const std::string& detail) { c.violation(prop + ":" + key, hist + " || " + detail); dead_end = true; }
  Vec value(const Slot& x) const { if (x.k == OWNED) return x.vals; if (x.k == EXT) return Vec(bufs[x.buf]->image.begin(), bufs[x.buf]->image.begin() + (size_t)x.d * x.d); return Vec(); }
  int which_buf(const double* p) const { for (size_t i = 0; i < bufs.size(); i++) if (bufs[i]->p == p) return (int)i; return -1; }
  bool in_any_buf(const double* p) const { for (auto& b : bufs) if (b->contains(p)) return true; return false; }
  std::vector<int> pick_kinds(std::initializer_list<Kind> ks) const { std::vector<int> o; for (size_t i = 0; i < s.size(); i++) for (Kind k : ks) if (s[i].k == k) o.push_back((int)i); return o; }
  int pick(std::initializer_list<Kind> ks, int avoid = -1, int dim = 0) {
    std::vector<int> o;
    for (int i : pick_kinds(ks)) if (i != avoid && (dim == 0 || s[i].d == (unsigned)dim)) o.push_back(i);
    return o.empty() ? -1 : o[r.pick((unsigned)o.size())];
  }
  // classify a slot whose post-state the property leaves open, by observation only
  int followup = -1; unsigned followup_d = 0;  // a just-consumed vector and the dimension it had
  void observe_source(int i) {
    Slot& x = s[i];
    if (x.d >= 2) { followup = i; followup_d = x.d; }
    unsigned d = x.v->Dim();
    if (d == 0) { x.k = EMPTY; x.d = 0; x.buf = -1; x.vals.clear(); return; }
    const double* p = &(*x.v)[0];
    int b = which_buf(p);
    if (b >= 0 && (size_t)d * d <= bufs[b]->n) { x.k = EXT; x.d = d; x.buf = b; x.vals.clear(); return; }
    x.k = UNSPEC; x.d = d; x.buf = -1; x.vals.clear();
  }
  // target after an operation with known expected value
  // `mag`: magnitude of the terms the expected value was formed from, when those can be much larger than the value itself
  // (v += a*s may be contracted into one fused multiply-add in the AVX2 build: one rounding of |a*s| less than the model)
  void adopt_target(int i, const Vec& expect, double tol_scale, const char* opname, bool must_be_owned, const Vec* mag = nullptr) {
    Slot& x = s[i];
    unsigned d = x.v->Dim();
    if ((size_t)d * d != expect.size()) { viol(std::string(opname) + ":wrong-dimension", vh::fmt("slot %d has Dim()=%u, expected %zu components", i, d, expect.size())); return; }
    if (d == 0) { x.k = EMPTY; x.d = 0; x.buf = -1; x.vals.clear(); return; }
    Vec got = comps(*x.v);
    for (size_t k = 0; k < got.size(); k++) {
      double tol = tol_scale * 8 * EPS * (std::fabs(expect[k]) + tol_scale + (mag ? (*mag)[k] : 0.0));
      if (!(std::fabs(got[k] - expect[k]) <= tol)) { viol(std::string(opname) + ":wrong-value", vh::fmt("slot %d component %zu is %.17g, expected %.17g", i, k, got[k], expect[k])); return; }
    }
    const double* p = &(*x.v)[0];
    int b = which_buf(p);
    if (b >= 0) {
      if (must_be_owned) { viol(std::string(opname) + ":result-bound-to-user-storage", vh::fmt("slot %d should own fresh storage but points at user buffer %d", i, b)); return; }
      x.k = EXT; x.d = d; x.buf = b; x.vals.clear();
      for (size_t k = 0; k < got.size(); k++) bufs[b]->image[k] = got[k];  // modelled write into the buffer
    } else { x.k = OWNED; x.d = d; x.buf = -1; x.vals = got; }
  }

  // ---- the invariants, at quiescent points
  void check_all(const char* after) {
    if (dead_end) return;
    steps++;
    drain_ledger_errors(c, prop, hist);
    std::vector<const void*> cached; access::cached_blocks(cached);
    std::vector<const void*> owners;
    for (size_t i = 0; i < s.size(); i++) {
      Slot& x = s[i];
      if (x.k == DEAD) continue;
      unsigned d = x.v->Dim();
      auto pk = access::peek(*x.v);
      if (pk.isinit) {
        const void* base = pk.components - pk.ptr_offset;
        for (auto o : owners) if (o == base) { viol("two-vectors-own-the-same-storage", vh::fmt("after %s: slot %zu", after, i)); return; }
        owners.push_back(base);
        if (!ledger::is_live_array(base)) { viol("vector-owns-released-block", vh::fmt("after %s: slot %zu (%s)", after, i, kname[x.k])); return; }
        for (auto q : cached) if (q == base) { viol("block-both-cached-and-owned", vh::fmt("after %s: slot %zu", after, i)); return; }
      }
      if (x.k == UNSPEC) continue;
      if (x.k == EMPTY) { if (d != 0) { viol("empty-vector-has-dimension", vh::fmt("after %s: slot %zu Dim()=%u", after, i, d)); return; } continue; }
      if (d != x.d) { viol("dimension-changed", vh::fmt("after %s: slot %zu (%s) Dim()=%u, model %u", after, i, kname[x.k], d, x.d)); return; }
      const double* p = &(*x.v)[0];
      if (x.k == EXT) {
        if (p != bufs[x.buf]->p) { viol("external-vector-not-bound-to-its-buffer", vh::fmt("after %s: slot %zu", after, i)); return; }
        if (pk.isinit) { viol("external-vector-claims-ownership", vh::fmt("after %s: slot %zu", after, i)); return; }
      } else {
        if (in_any_buf(p)) { viol("owned-vector-points-into-user-storage", vh::fmt("after %s: slot %zu", after, i)); return; }
        Vec got = comps(*x.v);
        if (!same_bits(got, x.vals)) {
          size_t k = 0; while (k < got.size() && memcmp(&got[k], &x.vals[k], 8) == 0) k++;
          viol("vector-changed-by-operation-on-other-vectors", vh::fmt("after %s: slot %zu (owned, dim %u) component %zu is %.17g, was %.17g", after, i, d, k, got[k], x.vals[k])); return;
        }
      }
    }
    // owned vectors are pairwise disjoint
    for (size_t i = 0; i < s.size(); i++) for (size_t j = i + 1; j < s.size(); j++)
      if (s[i].k == OWNED && s[j].k == OWNED) {
        const double *p = &(*s[i].v)[0], *q = &(*s[j].v)[0];
        if (p < q + s[j].d * s[j].d && q < p + s[i].d * s[i].d) { viol("owned-vectors-overlap", vh::fmt("after %s: slots %zu and %zu", after, i, j)); return; }
      }
    for (size_t b = 0; b < bufs.size(); b++) if (!bufs[b]->intact()) {
      size_t k = 0; while (k < bufs[b]->n && memcmp(&bufs[b]->p[k], &bufs[b]->image[k], 8) == 0) k++;
      viol("user-buffer-modified-behind-the-model", vh::fmt("after %s: buffer %zu entry %zu is %.17g, model %.17g", after, b, k, bufs[b]->p[k], bufs[b]->image[k])); return;
    }
  }
};

double uop(double a, double b) { return a * b - 0.5; }

// expression shapes for the C08 interpreter (the full matrix is C09's business)
enum Ex { SUM_LL, SUM_LR, SUM_RL, SUM_RR, DIFF_LL, DIFF_RL, NEG_L, NEG_R, MUL_L, MUL_R, LMUL_L, LMUL_R, COMM, ACOMM, EVOLVE, EW_LL, EW_RL, EW_LR, EW_RR, NEX };
const char* exname[] = {"a+b", "a+move(b)", "move(a)+b", "move(a)+move(b)", "a-b", "move(a)-b", "-a", "-move(a)", "a*s", "move(a)*s", "s*a", "s*move(a)", "iCommutator(a,b)", "ACommutator(a,b)", "a.Evolve(h,t)", "EW(a,b)", "EW(move(a),b)", "EW(a,move(b))", "EW(move(a),move(b))"};
bool ex_binary(int e) { return e <= DIFF_RL || e == COMM || e == ACOMM || e >= EW_LL; }
bool ex_a_rvalue(int e) { return e == SUM_RL || e == SUM_RR || e == DIFF_RL || e == NEG_R || e == MUL_R || e == LMUL_R || e == EW_RL || e == EW_RR; }
bool ex_b_rvalue(int e) { return e == SUM_LR || e == SUM_RR || e == EW_LR || e == EW_RR; }

template <class Stmt>
void with_expr(int e, SU_vector& a, SU_vector& b, SU_vector& h, double sc, Stmt st) {
  using namespace squids;
  switch (e) {
    case SUM_LL: st(a + b); break; case SUM_LR: st(a + std::move(b)); break; case SUM_RL: st(std::move(a) + b); break; case SUM_RR: st(std::move(a) + std::move(b)); break;
    case DIFF_LL: st(a - b); break; case DIFF_RL: st(std::move(a) - b); break;
    case NEG_L: st(-a); break; case NEG_R: st(-std::move(a)); break;
    case MUL_L: st(a * sc); break; case MUL_R: st(std::move(a) * sc); break; case LMUL_L: st(sc * a); break; case LMUL_R: st(sc * std::move(a)); break;
    case COMM: st(iCommutator(a, b)); break; case ACOMM: st(ACommutator(a, b)); break;
    case EVOLVE: st(a.Evolve(h, sc)); break;
    case EW_LL: st(ElementwiseOperation(uop, a, b)); break; case EW_RL: st(ElementwiseOperation(uop, std::move(a), b)); break;
    case EW_LR: st(ElementwiseOperation(uop, a, std::move(b))); break; case EW_RR: st(ElementwiseOperation(uop, std::move(a), std::move(b))); break;
  }
}
struct AssignTo { SU_vector& t; template <class P> void operator()(const P& p) { t = p; } };
struct AddTo { SU_vector& t; template <class P> void operator()(const P& p) { t += p; } };
struct SubFrom { SU_vector& t; template <class P> void operator()(const P& p) { t -= p; } };
struct ConstructInto { std::unique_ptr<SU_vector>& t; template <class P> void operator()(P&& p) { t.reset(new SU_vector(std::move(p))); } };

// naive value of an expression from operand values
Vec naive(int e, const Vec& a, const Vec& b, const Vec& h, double sc, unsigned d) {
  Vec r(a.size());
  switch (e) {
    case SUM_LL: case SUM_LR: case SUM_RL: case SUM_RR: for (size_t k = 0; k < r.size(); k++) r[k] = a[k] + b[k]; break;
    case DIFF_LL: case DIFF_RL: for (size_t k = 0; k < r.size(); k++) r[k] = a[k] - b[k]; break;
    case NEG_L: case NEG_R: for (size_t k = 0; k < r.size(); k++) r[k] = -a[k]; break;
    case MUL_L: case MUL_R: case LMUL_L: case LMUL_R: for (size_t k = 0; k < r.size(); k++) r[k] = sc * a[k]; break;
    case EW_LL: case EW_RL: case EW_LR: case EW_RR: for (size_t k = 0; k < r.size(); k++) r[k] = uop(a[k], b[k]); break;
    default: {  // the library's own kernel on fresh copies, into a fresh temporary
      SU_vector A(a), H(d);
      SU_vector B = b.empty() ? SU_vector(d) : SU_vector(b);
      if (!h.empty()) H = SU_vector(h);
      SU_vector R = e == COMM ? SU_vector(squids::iCommutator(A, B)) : e == ACOMM ? SU_vector(squids::ACommutator(A, B)) : SU_vector(A.Evolve(H, sc));
      r = comps(R);
    }
  }
  return r;
}

void run_history(vh::Ctx& c, vh::Rng& r, const std::string& prop, bool extended, long idx) {
  World w(c, r, prop, extended);
  SU_vector::clear_mem_cache();  // the baseline must not contain blocks that the final drain will release
  long live0 = ledger::live_array_blocks();
  {
    int nslots = 4 + r.pick(5), nbufs = 2 + r.pick(2);
    w.s.resize(nslots);
    // dimensions are drawn from a small set so that same-size interactions are frequent
    unsigned dims[3] = {2 + r.pick(5), 2 + r.pick(5), 2 + r.pick(5)};
    for (int b = 0; b < nbufs; b++) {
      unsigned bd = r.coin(0.5) ? dims[r.pick(3)] : 6;
      w.bufs.emplace_back(new UserBuf((size_t)bd * bd, r.coin(0.5) ? 0 : (int)r.pick(4)));
      w.bufs.back()->fill(rand_vec(r, bd));
    }
    int len = extended ? 20 + r.pick(100) : 6 + r.pick(40);
    w.hist = vh::fmt("[%s case %ld] slots=%d buffers=%d:", prop.c_str(), idx, nslots, nbufs);
    squids::Const kst;
    for (unsigned j = 1; j < 6; j++) for (unsigned i = 0; i < j; i++) { kst.SetMixingAngle(i, j, r.uni(-1, 1)); kst.SetPhase(i, j, r.uni(-1, 1)); }
    std::unique_ptr<squids::SQuIDS> solver;
    for (int step = 0; step < len && !w.dead_end; step++) {
      int op = r.pick(extended ? 22 : 14);
      unsigned d = dims[r.pick(3)];
      std::ostringstream os;
      if (r.coin(0.03)) {
        // burst: more temporaries of one dimension than the per-dimension cache can hold (32), so that
        // releases overflow the cache and take the direct delete[] path, then allocations drain it again
        int n = 33 + r.pick(12);
        os << " burst(" << n << "x dim" << d << ")"; w.hist += os.str(); c.desc(w.hist);
        {
          std::vector<std::unique_ptr<SU_vector>> tmp;
          for (int k = 0; k < n; k++) tmp.emplace_back(r.coin(0.7) ? new SU_vector(d) : new SU_vector(rand_vec(r, d)));
          if (r.coin()) std::reverse(tmp.begin(), tmp.end());
        }
        { std::vector<SU_vector> again; for (int k = 0; k < 34; k++) again.emplace_back(d); }
        w.check_all("burst"); c.count("op.cache_overflow_burst");
        continue;
      }
      if (w.followup >= 0) {
        // the follow-up the property names first: assign to a moved-from / consumed vector, with
        // a value of the size it used to have (which is what reuses stale storage if any is left)
        int t = w.followup; unsigned fd = w.followup_d; w.followup = -1;
        if (r.coin(0.6) && w.s[t].k != DEAD && w.s[t].k != EXT) {
          Vec val = rand_vec(r, fd);
          Kind tk = w.s[t].k;
          os << " s" << t << ":" << kname[tk] << "=fresh" << fd; w.hist += os.str(); c.desc(w.hist);
          SU_vector tmp(val);
          if (r.coin()) *w.s[t].v = tmp; else *w.s[t].v = SU_vector(val) + tmp - tmp;
          w.adopt_target(t, val, 2, "assign-to-consumed", true);
          w.check_all("assignment to a consumed vector"); c.count("op.assign_to_unspecified"); c.count("op.followup_same_size_assignment");
          continue;
        }
      }
      auto fits = [&](int b, unsigned dd) { return (size_t)dd * dd <= w.bufs[b]->n; };
      if (op == 0 || op == 1) {
        // ---- construct into a dead slot
        int t = w.pick({DEAD}); if (t < 0) { op = 2; } else {
        Slot& T = w.s[t];
        int how = r.pick(7);
        if (how == 0) { T.v.reset(new SU_vector()); T.k = EMPTY; T.d = 0; os << " s" << t << "=SU_vector()"; }
        else if (how == 1) { T.v.reset(new SU_vector(d)); T.k = OWNED; T.d = d; T.vals.assign((size_t)d * d, 0.0); os << " s" << t << "=SU_vector(" << d << ")"; }
        else if (how == 2) { Vec v = rand_vec(r, d); T.v.reset(new SU_vector(v)); T.k = OWNED; T.d = d; T.vals = v; os << " s" << t << "=SU_vector(list" << d << ")"; }
        else if (how == 3) { int b = r.pick((unsigned)w.bufs.size()); if (!fits(b, d)) d = (unsigned)std::lround(std::sqrt((double)w.bufs[b]->n)); T.v.reset(new SU_vector(d, w.bufs[b]->p)); T.k = EXT; T.d = d; T.buf = b; os << " s" << t << "=SU_vector(" << d << ",buf" << b << ")"; }
        else if (how == 4) {
          int sidx = w.pick({EMPTY, OWNED, EXT}); if (sidx < 0) continue;
          Vec val = w.value(w.s[sidx]);
          T.v.reset(new SU_vector(*w.s[sidx].v)); os << " s" << t << "=copy(s" << sidx << ")";
          w.hist += os.str(); c.desc(w.hist);
          w.adopt_target(t, val, 0, "copy-construct", true);
          w.check_all("copy construction"); c.count("op.copy_construct"); continue;
        }
        else if (how == 5) {
          int sidx = w.pick({EMPTY, OWNED, EXT, UNSPEC}); if (sidx < 0) continue;
          Kind sk = w.s[sidx].k; Vec val = w.value(w.s[sidx]);
          T.v.reset(new SU_vector(std::move(*w.s[sidx].v))); os << " s" << t << "=move(s" << sidx << ":" << kname[sk] << ")";
          w.hist += os.str(); c.desc(w.hist);
          if (sk == UNSPEC) { T.k = UNSPEC; w.observe_source(t); } else w.adopt_target(t, val, 0, "move-construct", false);
          if (sk != EMPTY) w.observe_source(sidx);
          w.check_all("move construction"); c.count(sk == UNSPEC ? "op.move_from_unspecified_again" : "op.move_construct"); continue;
        }
        else {
          int e = r.pick(NEX); int a = w.pick({OWNED, EXT}); if (a < 0) continue;
          int b = ex_binary(e) ? w.pick({OWNED, EXT}, (ex_a_rvalue(e) || ex_b_rvalue(e)) ? a : -1, (int)w.s[a].d) : -1;
          if (ex_binary(e) && b < 0) continue;
          unsigned dd = w.s[a].d; Vec hv((size_t)dd * dd, 0.0); for (unsigned l = 1; l < dd; l++) hv[dd * l + l] = r.normal();
          SU_vector H(hv); double sc = r.normal();
          Vec av = w.value(w.s[a]), bv = b >= 0 ? w.value(w.s[b]) : Vec();
          Vec expect = naive(e, av, bv, hv, sc, dd);
          SU_vector dummy;
          os << " s" << t << "=SU_vector(" << exname[e] << ")[a=s" << a << ":" << kname[w.s[a].k] << (b >= 0 ? vh::fmt(",b=s%d:%s", b, kname[w.s[b].k]) : "") << "]";
          w.hist += os.str(); c.desc(w.hist);
          with_expr(e, *w.s[a].v, b >= 0 ? *w.s[b].v : dummy, H, sc, ConstructInto{T.v});
          w.adopt_target(t, expect, 1, "construct-from-expression", false);
          if (ex_a_rvalue(e)) { w.observe_source(a); c.count("consumed_operands"); }
          if (ex_b_rvalue(e) && b >= 0) { w.observe_source(b); c.count("consumed_operands"); }
          w.check_all("construction from an expression"); c.count("op.construct_from_expression"); continue;
        }
        w.hist += os.str(); c.desc(w.hist); w.check_all("construction"); c.count("op.construct"); continue; }
      }
      if (op == 2) {
        int t = w.pick({EMPTY, OWNED, EXT, UNSPEC}); if (t < 0) continue;
        os << " destroy(s" << t << ":" << kname[w.s[t].k] << ")"; w.hist += os.str(); c.desc(w.hist);
        c.count(w.s[t].k == UNSPEC ? "op.destroy_unspecified" : "op.destroy");
        w.s[t].v.reset(); w.s[t].k = DEAD; w.s[t].vals.clear(); w.s[t].buf = -1; w.s[t].d = 0;
        w.check_all("destruction"); continue;
      }
      if (op == 3 || op == 4) {
        // ---- copy assignment
        int t = w.pick({EMPTY, OWNED, EXT, UNSPEC}); int sidx = w.pick({EMPTY, OWNED, EXT}); if (t < 0 || sidx < 0) continue;
        Slot& T = w.s[t]; Slot& S = w.s[sidx];
        Vec val = w.value(S);
        bool expect_throw = T.k == EXT && t != sidx && (size_t)T.d * T.d != val.size();
        os << " s" << t << ":" << kname[T.k] << "=s" << sidx << ":" << kname[S.k]; w.hist += os.str(); c.desc(w.hist);
        Kind tk = T.k;
        bool threw = false;
        try { *T.v = *S.v; } catch (std::runtime_error&) { threw = true; }
        if (threw != expect_throw) { w.viol("copy-assign:exception-mismatch", vh::fmt("threw=%d expected=%d", (int)threw, (int)expect_throw)); break; }
        if (!threw && t != sidx) w.adopt_target(t, val, 0, "copy-assign", tk != EXT);
        w.check_all("copy assignment"); c.count(tk == UNSPEC ? "op.assign_to_unspecified" : (threw ? "op.copy_assign_rejected" : "op.copy_assign")); continue;
      }
      if (op == 5 || op == 6) {
        // ---- move assignment
        int t = w.pick({EMPTY, OWNED, EXT, UNSPEC}); if (t < 0) continue;
        int sidx = w.pick({EMPTY, OWNED, EXT, UNSPEC}); if (sidx < 0) continue;
        Slot& T = w.s[t]; Slot& S = w.s[sidx];
        if (T.k == EXT && S.k == UNSPEC) continue;  // would put unspecified data into a user buffer
        Vec val = w.value(S); Kind sk = S.k, tk = T.k;
        bool expect_throw = T.k == EXT && t != sidx && (size_t)T.d * T.d != val.size();
        os << " s" << t << ":" << kname[T.k] << "=move(s" << sidx << ":" << kname[S.k] << ")"; w.hist += os.str(); c.desc(w.hist);
        bool threw = false;
        try { *T.v = std::move(*S.v); } catch (std::runtime_error&) { threw = true; }
        if (threw != expect_throw) { w.viol("move-assign:exception-mismatch", vh::fmt("threw=%d expected=%d", (int)threw, (int)expect_throw)); break; }
        if (!threw && t != sidx) {
          if (sk == UNSPEC) w.observe_source(t); else w.adopt_target(t, val, 0, "move-assign", false);
          if (w.dead_end) break;
          // the source: specified only if it visibly still is what it was
          if (sk == EXT || sk == EMPTY) { Kind k0 = S.k; w.observe_source(sidx); (void)k0; }
          else w.observe_source(sidx);
        }
        w.check_all("move assignment"); c.count(sk == UNSPEC ? "op.move_from_unspecified_again" : (tk == UNSPEC ? "op.assign_to_unspecified" : (threw ? "op.move_assign_rejected" : "op.move_assign"))); continue;
      }
      if (op == 7 || op == 8 || op == 9) {
        // ---- T (=|+=|-=) expression
        int e = r.pick(NEX); int form = r.pick(3);
        int a = w.pick({OWNED, EXT}); if (a < 0) continue;
        unsigned dd = w.s[a].d;
        bool anyr = ex_a_rvalue(e) || ex_b_rvalue(e);
        int b = ex_binary(e) ? w.pick({OWNED, EXT}, anyr ? a : -1, (int)dd) : -1;
        if (ex_binary(e) && b < 0) continue;
        int t = w.pick({EMPTY, OWNED, EXT, UNSPEC}, -1); if (t < 0) continue;
        if ((ex_a_rvalue(e) && t == a) || (ex_b_rvalue(e) && t == b)) continue;  // rvalue operand that is the target: C09
        Slot& T = w.s[t];
        if (T.k == UNSPEC && form != 0) continue;
        // two different objects on one user buffer (aliasing through storage) are left to C09
        if (T.k == EXT && ((w.s[a].k == EXT && w.s[a].buf == T.buf && a != t) || (b >= 0 && w.s[b].k == EXT && w.s[b].buf == T.buf && b != t))) continue;
        if (w.s[a].k == EXT && b >= 0 && w.s[b].k == EXT && w.s[a].buf == w.s[b].buf && a != b && anyr) continue;
        Vec hv((size_t)dd * dd, 0.0); for (unsigned l = 1; l < dd; l++) hv[dd * l + l] = r.normal();
        SU_vector H(hv); double sc = r.normal();
        Vec av = w.value(w.s[a]), bv = b >= 0 ? w.value(w.s[b]) : Vec(), tv = w.value(T);
        Vec res = naive(e, av, bv, hv, sc, dd);
        bool size_differs = (size_t)T.d * T.d != res.size() || T.k == EMPTY || T.k == UNSPEC;
        bool expect_throw = form == 0 ? (T.k == EXT && size_differs) : size_differs;
        Vec expect = res;
        if (!expect_throw && form == 1) for (size_t k = 0; k < res.size(); k++) expect[k] = tv[k] + res[k];
        if (!expect_throw && form == 2) for (size_t k = 0; k < res.size(); k++) expect[k] = tv[k] - res[k];
        SU_vector dummy;
        os << " s" << t << ":" << kname[T.k] << (form == 0 ? "=" : form == 1 ? "+=" : "-=") << exname[e] << "[a=s" << a << ":" << kname[w.s[a].k] << (b >= 0 ? vh::fmt(",b=s%d:%s", b, kname[w.s[b].k]) : "") << "]";
        w.hist += os.str(); c.desc(w.hist);
        Kind tk = T.k;
        bool threw = false;
        try {
          if (form == 0) with_expr(e, *w.s[a].v, b >= 0 ? *w.s[b].v : dummy, H, sc, AssignTo{*T.v});
          else if (form == 1) with_expr(e, *w.s[a].v, b >= 0 ? *w.s[b].v : dummy, H, sc, AddTo{*T.v});
          else with_expr(e, *w.s[a].v, b >= 0 ? *w.s[b].v : dummy, H, sc, SubFrom{*T.v});
        } catch (std::runtime_error&) { threw = true; }
        if (threw != expect_throw) { w.viol("expression-assign:exception-mismatch", vh::fmt("threw=%d expected=%d", (int)threw, (int)expect_throw)); break; }
        if (!threw) {
          Vec mag(res.size(), 0.0);
          if (form != 0) for (size_t k = 0; k < res.size(); k++) mag[k] = std::fabs(tv[k]) + std::fabs(res[k]);
          w.adopt_target(t, expect, 2, "expression-assign", false, &mag);
          if (w.dead_end) break;
          if (ex_a_rvalue(e) && a != t) { w.observe_source(a); c.count("consumed_operands"); }
          if (ex_b_rvalue(e) && b >= 0 && b != t) { w.observe_source(b); c.count("consumed_operands"); }
        }
        w.check_all("assignment from an expression");
        c.count(tk == UNSPEC ? "op.assign_to_unspecified" : (threw ? "op.expression_assign_rejected" : "op.expression_assign")); continue;
      }
      if (op == 10) {
        int t = w.pick({OWNED, EXT}); if (t < 0) continue;
        int b = r.pick((unsigned)w.bufs.size()); if (!fits(b, w.s[t].d)) continue;
        os << " s" << t << ".SetBackingStore(buf" << b << ")"; w.hist += os.str(); c.desc(w.hist);
        w.s[t].v->SetBackingStore(w.bufs[b]->p);
        w.s[t].k = EXT; w.s[t].buf = b; w.s[t].vals.clear();
        w.check_all("SetBackingStore"); c.count("op.set_backing_store"); continue;
      }
      if (op == 11) {
        int t = w.pick({OWNED, EXT}); if (t < 0) continue;
        unsigned k = r.pick(w.s[t].d * w.s[t].d); double x = r.normal();
        os << " s" << t << "[" << k << "]=x"; w.hist += os.str(); c.desc(w.hist);
        (*w.s[t].v)[k] = x;
        if (w.s[t].k == OWNED) w.s[t].vals[k] = x; else w.bufs[w.s[t].buf]->image[k] = x;
        w.check_all("element write"); c.count("op.element_write"); continue;
      }
      if (op == 12) {
        int a = w.pick({EMPTY, OWNED, EXT, UNSPEC}), b = w.pick({EMPTY, OWNED, EXT, UNSPEC}); if (a < 0 || b < 0) continue;
        os << " s" << a << "==s" << b; w.hist += os.str(); c.desc(w.hist);
        bool eq = (*w.s[a].v == *w.s[b].v);
        Kind ka = w.s[a].k, kb = w.s[b].k;
        if ((ka == OWNED || ka == EXT) && (kb == OWNED || kb == EXT)) {
          Vec va = w.value(w.s[a]), vb = w.value(w.s[b]);
          bool want = va.size() == vb.size(); if (want) for (size_t k = 0; k < va.size(); k++) if (va[k] != vb[k]) want = false;
          if (eq != want) { w.viol("comparison:wrong-answer", vh::fmt("got %d expected %d", (int)eq, (int)want)); break; }
        }
        w.check_all("comparison"); c.count((ka == UNSPEC || kb == UNSPEC) ? "op.compare_unspecified" : "op.compare"); continue;
      }
      if (op == 13) {
        int t = w.pick({OWNED, EXT}); if (t < 0) continue;
        int sidx = w.pick({OWNED, EXT}); if (sidx < 0) continue;
        int kind = r.pick(4); double sc = r.coin() ? 2.0 : r.normal();
        Vec tv = w.value(w.s[t]), sv = w.value(w.s[sidx]);
        bool expect_throw = kind < 2 && tv.size() != sv.size();
        os << " s" << t << (kind == 0 ? "+=s" : kind == 1 ? "-=s" : kind == 2 ? "*=x" : "/=x") << (kind < 2 ? std::to_string(sidx) : ""); w.hist += os.str(); c.desc(w.hist);
        bool threw = false;
        try { if (kind == 0) *w.s[t].v += *w.s[sidx].v; else if (kind == 1) *w.s[t].v -= *w.s[sidx].v; else if (kind == 2) *w.s[t].v *= sc; else *w.s[t].v /= sc; } catch (std::runtime_error&) { threw = true; }
        if (threw != expect_throw) { w.viol("compound:exception-mismatch", vh::fmt("threw=%d expected=%d", (int)threw, (int)expect_throw)); break; }
        if (!threw) {
          Vec ex = tv;
          for (size_t k = 0; k < ex.size(); k++) ex[k] = kind == 0 ? tv[k] + sv[k] : kind == 1 ? tv[k] - sv[k] : kind == 2 ? tv[k] * sc : tv[k] / sc;
          w.adopt_target(t, ex, 1, "compound-assign", false);
        }
        w.check_all("compound assignment"); c.count("op.compound"); continue;
      }
      // ---------------------------------------------------------------- extended catalogue (C15)
      // opaque producers: the model adopts what it observes; only the generic oracles judge
      auto adopt_observed = [&](int t) {
        Slot& T = w.s[t]; unsigned dd = T.v->Dim();
        if (dd == 0) { T.k = EMPTY; T.d = 0; T.vals.clear(); T.buf = -1; return; }
        int b = w.which_buf(&(*T.v)[0]);
        if (b >= 0) { T.k = EXT; T.d = dd; T.buf = b; Vec g = comps(*T.v); for (size_t k = 0; k < g.size(); k++) w.bufs[b]->image[k] = g[k]; }
        else { T.k = OWNED; T.d = dd; T.buf = -1; T.vals = comps(*T.v); }
      };
      if (op >= 14 && op <= 17) {
        int a = w.pick({OWNED, EXT}); if (a < 0) continue;
        int t = w.pick({EMPTY, OWNED, UNSPEC, DEAD}); if (t < 0) continue;
        if (t == a) continue;
        SU_vector& A = *w.s[a].v; unsigned dd = w.s[a].d;
        int which = r.pick(12);
        os << " s" << t << "=producer" << which << "(s" << a << ")"; w.hist += os.str(); c.desc(w.hist);
        std::unique_ptr<SU_vector> res;
        gsl_matrix_complex* U = gsl_matrix_complex_calloc(dd, dd);
        for (unsigned i = 0; i < dd; i++) gsl_matrix_complex_set(U, i, (i + 1) % dd, gsl_complex_rect(0, 1));
        switch (which) {
          case 0: res.reset(new SU_vector(A.Rotate(r.pick(dd - 1), dd - 1, r.normal(), r.normal()))); break;
          case 1: res.reset(new SU_vector(A.Rotate(U))); break;
          case 2: res.reset(new SU_vector(A.UTransform(U))); break;
          case 3: res.reset(new SU_vector(A.UDaggerTransform(U))); break;
          case 4: { SU_vector V(rand_vec(r, dd)); res.reset(new SU_vector(A.UTransform(V, gsl_complex_rect(0, r.normal())))); } break;
          case 5: res.reset(new SU_vector(A.Real())); break;
          case 6: res.reset(new SU_vector(A.Imag())); break;
          case 7: { auto m = A.GetGSLMatrix(); res.reset(new SU_vector(m.get())); } break;
          case 8: { auto m = A.GetGSLMatrix(); res.reset(new SU_vector(std::move(m))); } break;
          case 9: { Vec v = A.GetComponents(); res.reset(new SU_vector(v)); } break;
          case 10: { auto es = A.GetEigenSystem(r.coin()); res.reset(new SU_vector(A)); } break;
          default: { static const int fk = 5; int f = r.pick(fk); res.reset(new SU_vector(f == 0 ? SU_vector::Projector(dd, r.pick(dd)) : f == 1 ? SU_vector::Identity(dd) : f == 2 ? SU_vector::Generator(dd, r.pick(dd * dd)) : f == 3 ? SU_vector::PosProjector(dd, r.pick(dd)) : SU_vector::NegProjector(dd, r.pick(dd)))); }
        }
        gsl_matrix_complex_free(U);
        if (w.s[t].k == DEAD) w.s[t].v.reset(new SU_vector(std::move(*res))); else *w.s[t].v = std::move(*res);
        res.reset();
        adopt_observed(t);
        w.check_all("producer"); c.count("op.producer"); continue;
      }
      if (op == 18) {
        int a = w.pick({OWNED, EXT}); if (a < 0) continue;
        int which = r.pick(6); unsigned dd = w.s[a].d;
        os << " s" << a << ".inplace" << which; w.hist += os.str(); c.desc(w.hist);
        SU_vector& A = *w.s[a].v;
        SU_vector Y(dd); for (unsigned l = 0; l < dd; l++) Y[dd * l + l] = r.normal();
        switch (which) {
          case 0: A.RotateToB1(kst); break; case 1: A.RotateToB0(kst); break; case 2: A.Transpose(); break;
          case 3: A.WeightedRotation(kst, Y, kst); break;
          case 4: { auto V = kst.GetTransformationMatrix(dd); A.WeightedRotation(V.get(), Y, V.get()); } break;
          default: A.SetAllComponents(r.normal());
        }
        adopt_observed(a);
        w.check_all("in-place operation"); c.count("op.inplace"); continue;
      }
      if (op == 19 && r.coin(0.5)) {
        // the aligned factories promise ideally aligned storage ("make_aligned will automatically create SU_vectors
        // satisfying these criteria, as will the other static factory functions"), and users rely on it when they
        // assert AlignedStorage: a factory result that is not ideally aligned becomes a misaligned vector load
        os << " aligned-factories(dim" << d << ")"; w.hist += os.str(); c.desc(w.hist);
        SU_vector F1 = SU_vector::make_aligned(d), F2 = r.coin() ? SU_vector::Identity(d) : SU_vector::Projector(d, r.pick(d)), T = SU_vector::make_aligned(d, false);
        SU_vector F3 = SU_vector::Generator(d, r.pick(d * d)), F4 = r.coin() ? SU_vector::PosProjector(d, r.pick(d)) : SU_vector::NegProjector(d, r.pick(d));
        const SU_vector* fs[5] = {&F1, &F2, &T, &F3, &F4};
        bool allok = true;
        for (int k = 0; k < 5; k++) if (!ideally_aligned(*fs[k])) { allok = false; w.viol("aligned-factory-result-not-ideally-aligned", vh::fmt("factory result %d of dimension %u has its components at %p", k, d, (const void*)&(*fs[k])[0])); break; }
        if (allok) {
          using namespace squids::detail;
          for (unsigned k = 0; k < d * d; k++) F1[k] = r.normal();
          T = guarantee<NoAlias | EqualSizes | AlignedStorage>(F1 + F2);
          T += guarantee<NoAlias | EqualSizes | AlignedStorage>(F3 - F4);
          T -= guarantee<NoAlias | EqualSizes | AlignedStorage>(F1 * 0.5);
          volatile double x = squids::SUTrace<AlignedStorage>(T, F2); (void)x;
          for (unsigned k = 0; k < d * d; k++) { double want = (F1[k] + F2[k]) + (F3[k] - F4[k]) - F1[k] * 0.5; if (!(std::fabs(T[k] - want) <= 16 * EPS * (std::fabs(F1[k]) + 3))) { w.viol("aligned-expression:wrong-value", vh::fmt("component %u: %.17g vs %.17g", k, T[k], want)); break; } }
        }
        w.check_all("aligned factories"); c.count("op.aligned_factories");
        continue;
      }
      if (op == 19) {
        // evolution tables and filters on exact-size heap tables; stream output
        int a = w.pick({OWNED, EXT}); if (a < 0) continue;
        unsigned dd = w.s[a].d; SU_vector& A = *w.s[a].v;
        os << " tables(s" << a << ")"; w.hist += os.str(); c.desc(w.hist);
        SU_vector H(dd); for (unsigned l = 1; l < dd; l++) H[dd * l + l] = r.normal();
        UserBuf tb(H.GetEvolveBufferSize());
        std::vector<bool> av(dd * (dd - 1) / 2);
        H.PrepareEvolve(tb.p, r.normal()); H.PrepareEvolve(tb.p, r.normal(), r.u01(), av); H.PrepareEvolve(tb.p, 0.0, r.uni(0.1, 2));
        H.LowPassFilter(tb.p, 1.0, 0.5); H.AvgRampFilter(tb.p, 0.7, 1.0, 0.25);
        try { H.LowPassFilter(tb.p, 0.1, 0.5); } catch (std::runtime_error&) { c.count("exceptions.ramp"); }
        SU_vector E = A.Evolve(tb.p); volatile double x = E * A; (void)x;
        std::ostringstream sink; sink << A;
        w.check_all("tables and filters"); c.count("op.tables"); continue;
      }
      if (op == 20) {
        // calls that end in a library exception (C14's catalogue), interleaved with the history
        int a = w.pick({OWNED, EXT}); if (a < 0) continue;
        unsigned dd = w.s[a].d, od = dd == 6 ? 3 : dd + 1;
        SU_vector O(rand_vec(r, od)); SU_vector& A = *w.s[a].v;
        int which = r.pick(16);
        os << " throwing" << which << "(s" << a << ")"; w.hist += os.str(); c.desc(w.hist);
        bool threw = false;
        try {
          switch (which) {
            case 0: { SU_vector x = A + O; } break; case 1: { SU_vector x = SU_vector(O) + A; } break; case 2: { SU_vector x = squids::iCommutator(A, O); } break;
            case 3: { SU_vector x = squids::ACommutator(O, A); } break; case 4: { volatile double x = A * O; (void)x; } break; case 5: { SU_vector x = squids::ElementwiseProduct(SU_vector(A), O); } break;
            case 6: { SU_vector x(O); x += A; } break; case 7: { SU_vector x(O); x -= A + A; } break; case 8: { SU_vector x = O.Evolve(A, 0.1); } break;
            case 9: { Vec l(r.coin() ? 7 : (r.coin() ? 1 : 49), 1.0); SU_vector x(l); } break;
            case 10: { gsl_matrix_complex* m = gsl_matrix_complex_calloc(r.coin() ? 1 : 7, r.coin() ? 3 : 7); struct G { gsl_matrix_complex* m; ~G() { gsl_matrix_complex_free(m); } } g{m}; SU_vector x(m); } break;
            case 11: { SU_vector x(r.coin() ? 7u : 1u); } break; case 12: { SU_vector x = SU_vector::Projector(dd, dd + r.pick(3)); } break;
            case 13: { SU_vector x = SU_vector::Generator(dd, dd * dd + r.pick(3)); } break;
            case 14: { gsl_matrix_complex* m = gsl_matrix_complex_calloc(od, od); struct G { gsl_matrix_complex* m; ~G() { gsl_matrix_complex_free(m); } } g{m}; SU_vector x = A.Rotate(m); } break;
            default: { SU_vector x = SU_vector::make_aligned(r.coin() ? 7u : 1u); }
          }
        } catch (std::exception&) { threw = true; }
        if (!threw) c.count("throwing_call_did_not_throw"); else c.count("exceptions.library");
        w.check_all("a call that throws"); c.count("op.throwing"); continue;
      }
      if (op == 21) {
        // solver objects: construct, set a grid, evolve a little, query, move, re-initialise, destroy
        os << " solver"; w.hist += os.str(); c.desc(w.hist);
        struct Tiny : public squids::SQuIDS {
          Tiny() {} Tiny(unsigned nx, unsigned d, unsigned nr, unsigned ns) : squids::SQuIDS(nx, d, nr, ns, 0.0) {}
          Tiny(Tiny&&) = default; Tiny& operator=(Tiny&&) = default;
          SU_vector H0(double x, unsigned) const override { SU_vector h(nsun); for (unsigned l = 1; l < nsun; l++) h[nsun * l + l] = x * l; return h; }
          SU_vector HI(unsigned, unsigned, double t) const override { SU_vector h(nsun); h[1] = (0.3 + 0.1 * t) * boost; return h; }
          // the in-step view is what a derived class is meant to read in its callbacks
          void PreDerive(double) override { double a = 0; for (unsigned ix = 0; ix < nx; ix++) { for (unsigned ir = 0; ir < nrhos; ir++) a += estate[ix].rho[ir][0] + estate[ix].rho[ir][nsun * nsun - 1]; for (unsigned is = 0; is < nscalars; is++) a += estate[ix].scalar[is]; } probe = a; }
          double boost = 1.0, probe = 0.0;
          SU_vector GammaRho(unsigned, unsigned, double) const override { SU_vector g(nsun); g[0] = 0.05; return g; }
          double GammaScalar(unsigned, unsigned, double) const override { return 0.1; }
          void fill(vh::Rng& r) { for (unsigned ix = 0; ix < nx; ix++) { for (unsigned ir = 0; ir < nrhos; ir++) for (unsigned k = 0; k < nsun * nsun; k++) state[ix].rho[ir][k] = r.normal(); for (unsigned is = 0; is < nscalars; is++) state[ix].scalar[is] = r.normal(); } }
        };
        unsigned nx = 2 + r.pick(3), dd = 2 + r.pick(5), nr = 1 + r.pick(2), ns = r.pick(3);
        std::unique_ptr<Tiny> p(new Tiny(nx, dd, nr, ns));
        p->Set_xrange(1.0, 3.0, r.coin() ? "linear" : "log"); p->fill(r);
        p->Set_CoherentRhoTerms(true); p->Set_NonCoherentRhoTerms(r.coin()); p->Set_GammaScalarTerms(ns > 0);
        p->Set_rel_error(1e-6); p->Set_abs_error(1e-6); p->Set_h(1e-2);
        static const gsl_odeiv2_step_type* const steppers[] = {gsl_odeiv2_step_rk2, gsl_odeiv2_step_rk4, gsl_odeiv2_step_rkf45, gsl_odeiv2_step_rkck, gsl_odeiv2_step_rk8pd, gsl_odeiv2_step_msadams};
        int stp = r.pick(6); p->Set_GSL_step(steppers[stp]); c.count(vh::fmt("solver.stepper.%s", steppers[stp]->name));
        p->Evolve(0.05);
        if (r.coin(0.4)) {
          // an integration that GSL gives up on (step size forced above what the tolerance needs): Evolve ends in a library
          // exception; the object is then used further - without numerical terms (callback only) and with them
          p->boost = 400; p->Set_rel_error(1e-12); p->Set_abs_error(1e-12); p->Set_h(0.5); p->Set_h_min(0.4); p->Set_h_max(1.0);
          bool threw = false;
          try { p->Evolve(10.0); } catch (std::runtime_error&) { threw = true; }
          c.count(threw ? "exceptions.solver.evolve_gave_up" : "solver.forced_failure_did_not_fail");
          p->boost = 1; p->Set_rel_error(1e-6); p->Set_abs_error(1e-6); p->Set_h_min(1e-300); p->Set_h_max(1e300); p->Set_h(1e-2);
          bool coh = true;
          if (r.coin(0.7)) { p->Set_CoherentRhoTerms(false); bool nc = false; p->Set_NonCoherentRhoTerms(nc); p->Set_GammaScalarTerms(false); p->Evolve(0.01); coh = false; }
          if (!coh) { p->Set_CoherentRhoTerms(true); p->Set_GammaScalarTerms(ns > 0); }
          p->fill(r);   // the interrupted integration may have left anything finite or not in the state
        }
        if (r.coin()) { std::unique_ptr<Tiny> q(new Tiny(std::move(*p))); p = std::move(q); }
        if (r.coin()) { std::unique_ptr<Tiny> q(new Tiny(2, 3, 1, 0)); q->Set_xrange(0.0, 1.0, "linear"); q->fill(r); q->Set_CoherentRhoTerms(true); q->Evolve(0.01); *q = std::move(*p); p = std::move(q); }
        p->Evolve(0.02);
        SU_vector O(rand_vec(r, dd)); std::vector<bool> av(dd * (dd - 1) / 2);
        volatile double x = p->GetExpectationValue(O, 0, 0) + p->GetExpectationValueD(O, 0, 2.0) + p->GetExpectationValueD(O, 0, 1.5, 1.0, av) + p->GetExpectationValue(O, 0, 1, 0.5, av); (void)x;
        SU_vector st = p->GetIntermediateState(0, 2.5);
        try { (void)p->GetExpectationValueD(O, 0, 5.0); } catch (std::runtime_error&) { c.count("exceptions.solver"); }
        try { (void)p->Get_i(7.0); } catch (std::runtime_error&) { c.count("exceptions.solver"); }
        try { p->Set_xrange(std::vector<double>{3, 2, 1}); } catch (std::runtime_error&) { c.count("exceptions.solver"); }
        if (r.coin()) { p->ini(2 + r.pick(2), 2 + r.pick(5), 1, r.pick(2), 0.5); p->Set_xrange(0.5, 1.5, "linear"); p->fill(r); p->Evolve(0.01); }
        p.reset();
        w.check_all("solver object"); c.count("op.solver"); continue;
      }
    }
    c.eval(w.steps);
    c.count("steps", w.steps);
    c.nontrivial(vh::fnv_str(w.hist));
    if (idx < 4) c.sample(w.hist.substr(0, 900));
    // end of history: destroy everything
    c.desc(w.hist + " || end of history: destroy all");
    for (auto& x : w.s) x.v.reset();
    drain_ledger_errors(c, prop, w.hist + " (final destruction)");
  }
  SU_vector::clear_mem_cache();
  drain_ledger_errors(c, prop, "cache drain");
  long live = ledger::live_array_blocks();
  if (live != live0) {
    // leak freedom is C15's claim; C08 does not state it, so there it is only counted
    std::string sizes;
    for (auto& pr : ledger::live_array_list(40)) sizes += vh::fmt(" %zuB", pr.second);
    if (prop == "C15") c.violation(prop + ":leak", w.hist + vh::fmt(" || %ld array blocks still live after every object was destroyed and the cache emptied; live block sizes now:%s", live - live0, sizes.c_str()));
    else c.count("blocks_still_live_at_end_of_history(judged by C15)", live - live0);
  }
}
}  // namespace

void run_C08(vh::Ctx& c) {
  long N = c.n(12000, 400000);
  vh::run_cases(c, 8, N, [&](long idx, vh::Rng& r) { run_history(c, r, "C08", false, idx); });
  auto st = ledger::stats();
  c.count("ledger.array_allocs", st.array_allocs); c.count("ledger.peak_live_array_blocks", st.peak_live_array);
}
void run_C15(vh::Ctx& c) {
  {  // the interpolating queries keep per-thread scratch vectors alive until the thread ends: they are
     // live library objects, not leaks, so create them before any baseline is taken
    struct W : public squids::SQuIDS { W() : squids::SQuIDS(2, 2, 1, 0, 0.0) {} };
    W w; w.Set_xrange(0.0, 1.0, "linear");
    SU_vector o(2); std::vector<bool> av(1);
    (void)w.GetExpectationValueD(o, 0, 0.5); (void)w.GetExpectationValueD(o, 0, 0.5, 1.0, av);
  }
  long N = c.n(3000, 100000);
  vh::run_cases(c, 15, N, [&](long idx, vh::Rng& r) { run_history(c, r, "C15", true, idx); });
  auto st = ledger::stats();
  c.count("ledger.array_allocs", st.array_allocs); c.count("ledger.array_frees", st.array_frees); c.count("ledger.peak_live_array_blocks", st.peak_live_array);
}
