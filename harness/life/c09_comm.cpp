#include "life/c09.h"
namespace c09 {
void exec_commutators(int shape, int form, unsigned G, Setup& S) {
  if (shape == COMM) stmt_g(form, G, S, squids::iCommutator(*S.pa, *S.pb));
  else stmt_g(form, G, S, squids::ACommutator(*S.pa, *S.pb));
}
}
