#include "life/c09.h"
namespace c09 {
void exec_commutators(int shape, int form, unsigned G, Setup& S) {
  using squids::iCommutator; using squids::ACommutator;
  switch (shape) {
    case COMM: stmt_g(form, G, S, iCommutator(*S.pa, *S.pb)); break;
    case COMM_RL: stmt_g(form, G, S, iCommutator(std::move(*S.pa), *S.pb)); break;
    case COMM_LR: stmt_g(form, G, S, iCommutator(*S.pa, std::move(*S.pb))); break;
    case ACOMM: stmt_g(form, G, S, ACommutator(*S.pa, *S.pb)); break;
    case ACOMM_RL: stmt_g(form, G, S, ACommutator(std::move(*S.pa), *S.pb)); break;
    default: stmt_g(form, G, S, ACommutator(*S.pa, std::move(*S.pb)));
  }
}
}
