// C09 - fused expression evaluation equals naive evaluation for every expression shape
#include "life/c09.h"
using namespace c09;

namespace {
enum TKind { T_EMPTY, T_OWNED_SAME, T_OWNED_OTHER, T_EXT_SAME, T_EXT_OTHER, NTK };
const char* tk_name[] = {"empty", "owned same d", "owned other d", "external same d", "external other d"};
enum Alias { A_NONE, A_V_IS_A, A_V_IS_B, A_V_IS_BOTH, A_SHARED_BUFFER, NALIAS };
const char* alias_name[] = {"no alias", "v is a", "v is b", "v is a and b", "v and a are different objects on one user buffer"};

// an operand/target with controlled storage
struct Obj {
  std::unique_ptr<SU_vector> v; std::unique_ptr<UserBuf> buf;
  void owned(vh::Rng& r, const Vec& val, unsigned d) {
    if (r.coin(0.6)) { v.reset(new SU_vector(d)); for (size_t k = 0; k < val.size(); k++) (*v)[k] = val[k]; }  // cache/aligned allocation
    else v.reset(new SU_vector(val));                                                                          // plain new[]: alignment by chance
  }
  void external(vh::Rng& r, const Vec& val, unsigned d, int misalign = -1) {
    if (misalign < 0) misalign = r.coin(0.5) ? (d % 2 ? 3 : 0) : (int)r.pick(4);   // half of them ideally aligned
    buf.reset(new UserBuf((size_t)d * d, misalign)); buf->fill(val);
    v.reset(new SU_vector(d, buf->p));
  }
};

Vec naive(int shape_, const Vec& a, const Vec& b, const Vec& h, const double* table, double sc, unsigned d) {
  Vec r(a.size());
  int shape = base_shape(shape_);
  switch (shape) {
    case SUM_LL: case SUM_LR: case SUM_RL: case SUM_RR: for (size_t k = 0; k < r.size(); k++) r[k] = a[k] + b[k]; break;
    case DIFF_LL: case DIFF_RL: for (size_t k = 0; k < r.size(); k++) r[k] = a[k] - b[k]; break;
    case NEG_L: case NEG_R: for (size_t k = 0; k < r.size(); k++) r[k] = -a[k]; break;
    case MUL_L: case MUL_R: case LMUL_L: case LMUL_R: for (size_t k = 0; k < r.size(); k++) r[k] = sc * a[k]; break;
    case EW_LL: case EW_RL: case EW_LR: case EW_RR: for (size_t k = 0; k < r.size(); k++) r[k] = uop(a[k], b[k]); break;
    default: {
      // the operation itself evaluated into a fresh temporary from fresh copies of the operands (its
      // correctness is the business of C02/C03); this is the definition of "naive" in the property
      SU_vector A(a), B(b.empty() ? a : b), H(h.empty() ? Vec((size_t)d * d, 0.0) : h);
      SU_vector T(d);
      if (shape == COMM) { SU_vector R = squids::iCommutator(A, B); r = comps(R); }
      else if (shape == ACOMM) { SU_vector R = squids::ACommutator(A, B); r = comps(R); }
      else if (shape == EVOLVE) { SU_vector R = A.Evolve(H, sc); r = comps(R); }
      else { SU_vector R = A.Evolve(table); r = comps(R); }
    }
  }
  return r;
}
}  // namespace

void run_C09(vh::Ctx& c) {
  // the discrete axes: shape x form x target kind x alias pattern x guarantee set x dimension
  const long CELLS = (long)NSHAPE * NFORM * NTK * NALIAS * 5 * 5;
  long draws = c.n(2, 40);
  vh::run_cases(c, 9, CELLS * draws, [&](long idx, vh::Rng& r) {
    long cell = idx % CELLS;
    int shape = (int)(cell % NSHAPE), form = (int)((cell / NSHAPE) % NFORM), tk = (int)((cell / (NSHAPE * NFORM)) % NTK), al = (int)((cell / (NSHAPE * NFORM * NTK)) % NALIAS);
    unsigned G = Gsets[(cell / (NSHAPE * NFORM * NTK * NALIAS)) % 5], d = 2 + (unsigned)((cell / (NSHAPE * NFORM * NTK * NALIAS * 5)) % 5);
    bool bin = binary(shape), ew = elementwise(shape);
    // ---- admissibility of the cell
    if (form == F_CONSTRUCT && (tk != T_EMPTY || al != A_NONE)) { c.count("cells.inadmissible"); return; }   // a constructed vector has no previous storage and cannot alias
    if ((al == A_V_IS_B || al == A_V_IS_BOTH) && !bin) { c.count("cells.inadmissible"); return; }
    if ((al == A_V_IS_A || al == A_V_IS_B || al == A_V_IS_BOTH) && !(tk == T_OWNED_SAME || tk == T_EXT_SAME)) { c.count("cells.inadmissible"); return; }
    if (al == A_SHARED_BUFFER && !(tk == T_EXT_SAME || tk == T_EXT_OTHER)) { c.count("cells.inadmissible"); return; }
    if (al == A_SHARED_BUFFER && a_rvalue(shape)) { c.count("cells.inadmissible"); return; }  // the consumed operand's post-state would be the target's buffer: C08
    unsigned dv = (tk == T_EMPTY) ? 0 : (tk == T_OWNED_OTHER || tk == T_EXT_OTHER) ? (d == 6 ? 2 + r.pick(4) : d + 1 + r.pick(6 - d)) : d;
    bool sizes_equal = dv == d;
    bool aliases = al != A_NONE;
    // guarantees must be true
    if ((G & 1) && aliases) { c.count("cells.guarantee_would_be_false"); return; }
    if ((G & 2) && !sizes_equal && form != F_CONSTRUCT) { c.count("cells.guarantee_would_be_false"); return; }
    // ---- build the situation
    Vec a0 = rand_vec(r, d), b0 = bin ? rand_vec(r, d) : Vec(), v0 = dv ? rand_vec(r, dv) : Vec(), h0;
    if (bin && r.coin(0.1)) { b0 = a0; c.count("operands.equal_values_distinct_objects"); }
    if (r.coin(0.05)) { a0.assign(a0.size(), 0.0); c.count("operands.a_zero"); }
    // the scalar / time: besides generic values the ones an implementation is tempted to special-case
    double sc; { int w = r.pick(20); sc = w < 3 ? 2.0 : w < 6 ? 1.0 : w < 8 ? -1.0 : w < 10 ? 0.0 : r.normal(); }
    c.count(sc == 1.0 ? "scalar.one" : sc == -1.0 ? "scalar.minus_one" : sc == 0.0 ? "scalar.zero" : "scalar.generic");
    Obj V, A, B; SU_vector H(d);
    std::unique_ptr<UserBuf> table;
    if (base_shape(shape) == EVOLVE || base_shape(shape) == FASTEVOLVE) { h0.assign((size_t)d * d, 0.0); for (unsigned l = 1; l < d; l++) h0[d * l + l] = r.normal(); H = SU_vector(h0); table.reset(new UserBuf((size_t)d * (d - 1))); H.PrepareEvolve(table->p, sc); }
    Setup S; S.sc = sc; S.ph = &H; S.table = table ? table->p : nullptr;
    switch (tk) {
      case T_EMPTY: V.v.reset(new SU_vector()); break;
      case T_OWNED_SAME: case T_OWNED_OTHER: V.owned(r, v0, dv); break;
      default:
        if (al == A_SHARED_BUFFER) { unsigned big = std::max(d, dv); V.buf.reset(new UserBuf((size_t)big * big, r.pick(4))); V.buf->fill(big == dv ? v0 : a0); V.v.reset(new SU_vector(dv, V.buf->p)); }
        else V.external(r, v0, dv);
    }
    S.pv = V.v.get();
    if (al == A_V_IS_A || al == A_V_IS_BOTH) { S.pa = S.pv; a0 = v0; }
    else if (al == A_SHARED_BUFFER) { A.v.reset(new SU_vector(d, V.buf->p)); S.pa = A.v.get(); a0 = comps(*A.v); v0 = comps(*V.v); }
    else { if (r.coin(0.3)) A.external(r, a0, d); else A.owned(r, a0, d); S.pa = A.v.get(); }
    if (bin) {
      if (al == A_V_IS_B || al == A_V_IS_BOTH) { S.pb = S.pv; b0 = v0; }
      else { if (r.coin(0.3)) B.external(r, b0, d); else B.owned(r, b0, d); S.pb = B.v.get(); }
    }
    // AlignedStorage may only be asserted if it is true for the target and every operand
    if (G & 4) {
      bool ok = form == F_CONSTRUCT ? true : ideally_aligned(*S.pv);
      ok = ok && ideally_aligned(*S.pa) && (!bin || ideally_aligned(*S.pb));
      if (!ok) { c.count("cells.guarantee_would_be_false"); return; }
    }
    std::string what = vh::fmt("%s%s%s d=%u target: %s (dim %u), %s, guarantees=%u", form_name[form], shape_name[shape], form == F_CONSTRUCT ? ")" : "", d, tk_name[tk], dv, alias_name[al], G);
    c.desc(what);
    c.count(std::string("shape.") + shape_name[shape]); c.count(std::string("form.") + form_name[form]); c.count(std::string("target.") + tk_name[tk]); c.count(std::string("alias.") + alias_name[al]); c.count(vh::fmt("guarantee.%u", G));
    c.nontrivial(vh::fnv_u(cell, vh::fnv_d(a0.data(), a0.size())));
    // ---- expectation
    Vec tmp = naive(shape, a0, b0, h0, S.table, sc, d);
    bool expect_throw = false;
    if (form == F_ASSIGN) expect_throw = (tk == T_EXT_OTHER);
    else if (form == F_ADD || form == F_SUB) expect_throw = !sizes_equal;
    Vec expect = tmp;
    if (!expect_throw && form == F_ADD) for (size_t k = 0; k < tmp.size(); k++) expect[k] = v0[k] + tmp[k];
    if (!expect_throw && form == F_SUB) for (size_t k = 0; k < tmp.size(); k++) expect[k] = v0[k] - tmp[k];
    // plain assignment onto a same-size target that is nobody's operand: stale contents must not survive
    bool nanfill = form == F_ASSIGN && !aliases && sizes_equal && dv > 0;
    if (nanfill) { for (unsigned k = 0; k < dv * dv; k++) (*S.pv)[k] = std::nan(""); if (V.buf) for (auto& x : V.buf->image) x = std::nan(""); }
    bool no_alloc_documented = form != F_CONSTRUCT && !aliases && sizes_equal && !a_rvalue(shape) && !b_rvalue(shape);
    // ---- the statement under test
    bool threw = false; std::string msg;
    ledger::begin_window(0);
    try {
      if (ew) exec_elementwise(shape, form, G, S);
      else if (base_shape(shape) == COMM || base_shape(shape) == ACOMM) exec_commutators(shape, form, G, S);
      else exec_evolution(shape, form, G, S);
    } catch (std::runtime_error& e) { threw = true; msg = e.what(); }
    long allocs = ledger::end_window();
    c.eval();
    drain_ledger_errors(c, "C09", what);
    if (threw != expect_throw) { c.violation(std::string("C09:exception-mismatch:") + (threw ? "unexpected-exception" : "missing-exception"), what + (threw ? ": threw " + msg : ": no exception")); return; }
    if (threw) {
      c.count("documented_exceptions");
      // ... without modifying v
      if (dv == 0 ? V.v->Dim() != 0 : (V.v->Dim() != dv || !same_bits(comps(*V.v), v0))) c.violation("C09:target-modified-by-rejected-statement", what);
      if (V.buf && al != A_SHARED_BUFFER && (&(*V.v)[0] != V.buf->p || !V.buf->intact())) c.violation("C09:external-target-disturbed-by-rejected-statement", what);
    } else {
      const SU_vector& res = form == F_CONSTRUCT ? *S.constructed : *V.v;
      if (res.Dim() != d) { c.violation("C09:wrong-dimension", what + vh::fmt(": result has dimension %u", res.Dim())); return; }
      for (unsigned k = 0; k < d * d; k++) {
        double tol = 8 * EPS * ((form == F_ADD || form == F_SUB ? std::fabs(v0[k]) : 0.0) + std::fabs(tmp[k]));
        if (!(std::fabs(res[k] - expect[k]) <= tol)) {
          c.violation(vh::fmt("C09:wrong-value:%s", ew ? "elementwise" : shape_name[base_shape(shape)]), what + vh::fmt(": component %u is %.17g, naive evaluation gives %.17g (old target %.17g, op result %.17g)", k, res[k], expect[k], v0.empty() ? 0.0 : (k < v0.size() ? v0[k] : 0.0), tmp[k]));
          break;
        }
      }
      // externally backed targets keep reading and writing exactly their buffer
      if (V.buf && form != F_CONSTRUCT && &(*V.v)[0] != V.buf->p) c.violation("C09:external-target-rebound", what);
      if (no_alloc_documented) { c.count("no_allocation_cases"); if (allocs != 0) c.violation("C09:allocation-in-documented-no-allocation-case", what + vh::fmt(": %ld allocations", allocs)); }
    }
    // operands are unchanged unless consumed as rvalues or being the target
    if (S.pa != S.pv && al != A_SHARED_BUFFER && !a_rvalue(shape) && !same_bits(comps(*S.pa), a0)) c.violation("C09:operand-modified", what + ": a");
    if (bin && S.pb != S.pv && !b_rvalue(shape) && !same_bits(comps(*S.pb), b0)) c.violation("C09:operand-modified", what + ": b");
    if ((base_shape(shape) == EVOLVE) && !same_bits(comps(H), h0)) c.violation("C09:operand-modified", what + ": h");
    // an rvalue operand for which the library has no consuming overload keeps its value
    if (shape >= DIFF_LR) {
      if (a_rvalue(shape) && S.pa != S.pv && al != A_SHARED_BUFFER && !ew && !same_bits(comps(*S.pa), a0)) c.violation("C09:operand-modified", what + ": a (passed as rvalue to an operation that cannot consume it)");
      if (b_rvalue(shape) && bin && S.pb != S.pv && !ew && !same_bits(comps(*S.pb), b0)) c.violation("C09:operand-modified", what + ": b (passed as rvalue to an operation that cannot consume it)");
    }
    if (A.buf && !a_rvalue(shape) && (&(*A.v)[0] != A.buf->p)) c.violation("C09:external-operand-rebound", what);
    if (idx % 9973 == 0) c.sample(what);
  });
}
