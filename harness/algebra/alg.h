// alg.h - shared by the algebra monitors (C01 C02 C03 C06 C11 C12 C13)
#pragma once
#include <memory>
#include <cstring>
#include <SQuIDS/SUNalg.h>
#include <gsl/gsl_matrix.h>
#include <gsl/gsl_complex_math.h>
#include "common/vh.h"
#include "common/ref.h"

namespace alg {
using squids::SU_vector;
using vh::Rng;
typedef std::vector<double> Vec;
static const double EPS = 2.220446049250313e-16;

enum Cls { DENSE, SPARSE, GENERATOR, DIAGONAL, PROJCOMB, IDENT, REPEATED, HUGE_, TINY_, INTEGER, ZERO, NCLS };
static const char* cls_name[] = {"dense", "sparse", "generator", "diagonal", "projcomb", "identity", "repeated", "huge", "tiny", "integer", "zero"};

inline Vec zero_vec(int d) { return Vec((size_t)d * d, 0.0); }

// random unitary (QR of a Gaussian matrix by Gram-Schmidt in long double)
inline ref::Mat random_unitary(Rng& r, int d) {
  ref::Mat u(d);
  for (int j = 0; j < d; j++) {
    std::vector<ref::cx> col(d);
    for (;;) {
      for (int i = 0; i < d; i++) col[i] = ref::cx(r.normal(), r.normal());
      for (int k = 0; k < j; k++) {
        ref::cx dot = 0;
        for (int i = 0; i < d; i++) dot += std::conj(u(i, k)) * col[i];
        for (int i = 0; i < d; i++) col[i] -= dot * u(i, k);
      }
      ref::real nn = 0;
      for (int i = 0; i < d; i++) nn += std::norm(col[i]);
      nn = std::sqrt(nn);
      if (nn < 1e-3L) continue;
      for (int k = 0; k < j; k++) {  // second pass for orthogonality to long double precision
        ref::cx dot = 0;
        for (int i = 0; i < d; i++) dot += std::conj(u(i, k)) * col[i];
        for (int i = 0; i < d; i++) col[i] -= dot * u(i, k);
      }
      nn = 0;
      for (int i = 0; i < d; i++) nn += std::norm(col[i]);
      nn = std::sqrt(nn);
      for (int i = 0; i < d; i++) u(i, j) = col[i] / nn;
      break;
    }
  }
  return u;
}

inline ref::Mat diag_mat(const std::vector<ref::real>& w) {
  ref::Mat m((int)w.size());
  for (size_t i = 0; i < w.size(); i++) m((int)i, (int)i) = w[i];
  return m;
}

// component vector of class c; maxexp bounds the decimal exponent of huge/tiny classes
inline Vec gen_vec(Rng& r, int d, int c, int maxexp = 150) {
  Vec v = zero_vec(d);
  int n = d * d;
  switch (c) {
    case DENSE: for (auto& x : v) x = r.normal(); break;
    case SPARSE: { int k = r.range(1, 3); for (int i = 0; i < k; i++) v[r.pick(n)] = r.normal() * (r.coin(0.3) ? 100 : 1); } break;
    case GENERATOR: v[r.pick(n)] = r.coin() ? 1.0 : r.normal(); break;
    case DIAGONAL: v[0] = r.normal(); for (int l = 1; l < d; l++) v[d * l + l] = r.normal(); break;
    case PROJCOMB: {
      std::vector<ref::real> w(d);
      for (auto& x : w) x = r.pick(3) == 0 ? 0 : (r.coin() ? 1 : r.range(-2, 3));
      v = ref::to_components(diag_mat(w));
    } break;
    case IDENT: v[0] = r.coin() ? 1.0 : r.normal() * 10; break;
    case REPEATED: {
      std::vector<ref::real> w(d);
      ref::real base = r.normal();
      for (auto& x : w) x = base;
      int k = r.range(0, d - 2);
      for (int i = 0; i < k; i++) w[r.pick(d)] = r.normal();
      if (r.coin(0.4)) for (auto& x : w) x += r.normal() * std::pow(10.0, -r.range(3, 13));
      ref::Mat u = random_unitary(r, d);
      v = ref::to_components(u * diag_mat(w) * ref::dag(u));
    } break;
    case HUGE_: { double s = std::pow(10.0, r.range(maxexp / 2, maxexp)); for (auto& x : v) x = r.normal() * s; } break;
    case TINY_: { double s = std::pow(10.0, -r.range(maxexp / 2, maxexp)); for (auto& x : v) x = r.normal() * s; } break;
    case INTEGER: for (auto& x : v) x = r.range(-3, 3); break;
    case ZERO: break;
  }
  return v;
}
inline int pick_cls(Rng& r) {
  // weights: dense is the workhorse, structured classes are where kernels break
  static const int w[NCLS] = {6, 3, 3, 2, 2, 1, 2, 1, 1, 2, 1};
  int tot = 0; for (int x : w) tot += x;
  int k = r.pick(tot);
  for (int c = 0; c < NCLS; c++) { if (k < w[c]) return c; k -= w[c]; }
  return DENSE;
}
inline bool nontrivial_vec(const Vec& v, int cls) {
  int nz = 0; for (double x : v) nz += (x != 0);
  return nz >= 2 || (cls != DENSE && cls != ZERO && nz >= 1);
}
inline double maxabs(const Vec& v) { double m = 0; for (double x : v) m = std::max(m, std::fabs(x)); return m; }
inline bool all_finite(const Vec& v) { for (double x : v) if (!std::isfinite(x)) return false; return true; }
inline bool all_finite(const SU_vector& v) { for (unsigned i = 0; i < v.Size(); i++) if (!std::isfinite(v[i])) return false; return true; }

inline SU_vector make(const Vec& c) { return SU_vector(c); }
// a vector that lives in storage supplied by the user (exact size: a stray access is a heap overflow), as the
// solver's state vectors do; the algebra must not care who owns the components
struct ExtVec {
  std::unique_ptr<double[]> buf; size_t n; SU_vector v;
  ExtVec(const Vec& c, int d) : buf(new double[c.size()]), n(c.size()), v((unsigned)d, buf.get()) { std::copy(c.begin(), c.end(), buf.get()); }
  ExtVec(const ExtVec&) = delete;
  bool bound() const { return v.Dim() && &v[0] == buf.get(); }
  Vec image() const { return Vec(buf.get(), buf.get() + n); }
};
inline bool same_bits(const SU_vector& x, const SU_vector& y) {
  if (x.Dim() != y.Dim()) return false;
  for (unsigned k = 0; k < x.Size(); k++) if (!(x[k] == y[k]) && !(std::isnan(x[k]) && std::isnan(y[k]))) return false;   // +0 and -0 are the same component value
  return true;
}
inline ref::Mat M(const SU_vector& v) { return ref::from_components((int)v.Dim(), v.GetComponents()); }
inline ref::Mat M(int d, const Vec& c) { return ref::from_components(d, c); }

inline ref::Mat from_gsl(const gsl_matrix_complex* g) {
  ref::Mat m((int)g->size1);
  for (int i = 0; i < m.n; i++) for (int j = 0; j < m.n; j++) { gsl_complex z = gsl_matrix_complex_get(g, i, j); m(i, j) = ref::cx(GSL_REAL(z), GSL_IMAG(z)); }
  return m;
}
struct GslMat {
  gsl_matrix_complex* p;
  explicit GslMat(int n1, int n2 = -1) : p(gsl_matrix_complex_calloc(n1, n2 < 0 ? n1 : n2)) {}
  explicit GslMat(const ref::Mat& m) : p(gsl_matrix_complex_alloc(m.n, m.n)) {
    for (int i = 0; i < m.n; i++) for (int j = 0; j < m.n; j++) gsl_matrix_complex_set(p, i, j, gsl_complex_rect((double)m(i, j).real(), (double)m(i, j).imag()));
  }
  GslMat(const GslMat&) = delete;
  ~GslMat() { gsl_matrix_complex_free(p); }
  operator gsl_matrix_complex*() const { return p; }
};
// the matrix actually stored in a GslMat (entries rounded to double)
inline ref::Mat rounded(const ref::Mat& m) {
  ref::Mat r(m.n);
  for (size_t i = 0; i < m.a.size(); i++) r.a[i] = ref::cx((double)m.a[i].real(), (double)m.a[i].imag());
  return r;
}

// largest deviation between a library vector and a reference matrix, measured on components
inline double comp_err(const SU_vector& v, const ref::Mat& expect, int* where = nullptr) {
  auto e = ref::to_components_l(expect);
  double worst = 0;
  for (unsigned k = 0; k < v.Size(); k++) {
    double dlt = (double)std::fabs((ref::real)v[k] - e[k]);
    if (!(dlt <= worst)) { worst = dlt; if (where) *where = (int)k; }
    if (!std::isfinite(v[k])) { worst = INFINITY; if (where) *where = (int)k; }
  }
  return worst;
}


// diagonal operator classes
enum HCls { H_DENSE, H_ZERO, H_IDENT, H_FULLDEG, H_PARTDEG, H_NEARDEG, H_INT, H_BIG, H_SMALL, H_SINGLE, NH };
static const char* hname[] = {"diag-dense", "zero", "identity-only", "fully-degenerate", "partially-degenerate", "nearly-degenerate", "integer", "big", "small", "single-diag-generator"};

inline Vec gen_H(Rng& r, int d, int cls) {
  Vec h = zero_vec(d);
  std::vector<ref::real> w(d);
  switch (cls) {
    case H_DENSE: h[0] = r.normal(); for (int l = 1; l < d; l++) h[d * l + l] = r.normal(); break;
    case H_ZERO: break;
    case H_IDENT: h[0] = r.normal() * 5; break;
    case H_FULLDEG: { ref::real e = r.normal(); for (auto& x : w) x = e; h = ref::to_components(diag_mat(w)); for (int l = 1; l < d; l++) h[d * l + l] = 0; } break;
    case H_PARTDEG: { for (auto& x : w) x = r.range(-2, 2); int i = r.pick(d), j = r.pick(d); w[i] = w[j]; h = ref::to_components(diag_mat(w)); } break;
    case H_NEARDEG: { ref::real e = r.normal(); for (auto& x : w) x = e + r.normal() * std::pow(10.0, -r.range(6, 14)); h = ref::to_components(diag_mat(w)); } break;
    case H_INT: h[0] = r.range(-3, 3); for (int l = 1; l < d; l++) h[d * l + l] = r.range(-3, 3); break;
    case H_BIG: { double s = std::pow(10.0, r.range(3, 8)); for (int l = 1; l < d; l++) h[d * l + l] = r.normal() * s; } break;
    case H_SMALL: { double s = std::pow(10.0, -r.range(3, 12)); for (int l = 1; l < d; l++) h[d * l + l] = r.normal() * s; } break;
    case H_SINGLE: { int l = r.range(1, d - 1); h[d * l + l] = r.coin() ? 1.0 : r.normal(); } break;
  }
  return h;
}
inline double Wscale(int d, const Vec& h) { double w = 0; for (int l = 1; l < d; l++) w += 2 * std::fabs(h[d * l + l]); return w; }

// levels h_k of a diagonal operator with the identity component removed: only differences of
// levels matter for evolution, and dropping c0 avoids cancelling it in the reference
inline std::vector<ref::real> levels_traceless(int d, Vec h) {
  h[0] = 0;
  ref::Mat MH = ref::from_components(d, h);
  std::vector<ref::real> w(d);
  for (int i = 0; i < d; i++) w[i] = MH(i, i).real();
  return w;
}
}  // namespace alg

// one entry point per property, defined in cXX.cpp
void run_C01(vh::Ctx&); void run_C02(vh::Ctx&); void run_C03(vh::Ctx&); void run_C06(vh::Ctx&);
void run_C11(vh::Ctx&); void run_C12(vh::Ctx&); void run_C13(vh::Ctx&);
