// C13 - factory operators, exhaustive over d in 2..6 and all admissible indices
#include "alg.h"
using namespace alg;

static void judge(vh::Ctx& c, const char* what, int d, int idx, const SU_vector& v, const ref::Mat& expect) {
  c.eval();
  c.count(std::string("factory.") + what);
  c.nontrivial(vh::fnv_str(vh::fmt("%s/%d/%d", what, d, idx)));
  std::string ds = vh::fmt("%s(d=%d,index=%d)", what, d, idx);
  c.desc(ds);
  if ((int)v.Dim() != d || (int)v.Size() != d * d) { c.violation(std::string("C13:") + what + ":wrong-dimension", ds + vh::fmt(" has Dim()=%u", v.Dim())); return; }
  int where = -1;
  double e = comp_err(v, expect, &where);
  c.worst("err_over_eps", e / EPS);
  if (!(e <= 8 * EPS)) {
    ref::Mat got = M(v);
    std::string diagGot, diagExp;
    for (int i = 0; i < d; i++) { diagGot += vh::fmt("%s%.3g", i ? "," : "", (double)got(i, i).real()); diagExp += vh::fmt("%s%.3g", i ? "," : "", (double)expect(i, i).real()); }
    c.violation(std::string("C13:") + what + ":wrong-matrix", ds + " represents diag(" + diagGot + ") but should be diag(" + diagExp + vh::fmt("); component %d off by %.3g", where, e));
  }
  c.sample(ds + " -> components " + vh::vecstr(v.GetComponents(), 9));
}

void run_C13(vh::Ctx& c) {
  // the space is tiny: every shard would do the same work, so only shard 0 runs it
  if (c.a.shard != 0) return;
  c.begin_case(0);
  // every factory call below is preceded by releasing a same-dimension vector full of junk, so that the
  // block the factory recycles from the storage cache is dirty (a factory that relies on fresh memory fails)
  // ... and so is the stack below the caller: a factory that reads scratch it never wrote sees garbage, not leftovers of
  // an earlier call that happen to be right (the sanitizers in use do not flag uninitialised reads)
  struct Stack { static __attribute__((noinline)) void scribble(double v) { volatile double junk[6144]; for (int i = 0; i < 6144; i++) junk[i] = v + i; } };
  auto dirty = [](int d) { SU_vector junk(d); junk.SetAllComponents(7.25e5); Stack::scribble(-3.5e7); };
  for (int d = 2; d <= 6; d++) {
    dirty(d);
    judge(c, "Identity", d, 0, SU_vector::Identity(d), ref::Mat::identity(d));
    for (int i = 0; i < d; i++) {
      ref::Mat e(d); e(i, i) = 1;
      dirty(d);
      judge(c, "Projector", d, i, SU_vector::Projector(d, i), e);
    }
    for (int k = 0; k < d * d; k++) {
      dirty(d);
      SU_vector g = SU_vector::Generator(d, k);
      judge(c, "Generator", d, k, g, ref::basis(d, k));
      // "the unit vector along component k": exact
      for (int q = 0; q < d * d; q++) if (g[q] != (q == k ? 1.0 : 0.0)) { c.violation("C13:Generator:not-unit-vector", vh::fmt("Generator(%d,%d)[%d]=%g", d, k, q, g[q])); break; }
    }
    // PosProjector(d,k): ones in the first k positions; NegProjector(d,k): ones in the last k
    // positions.  The library accepts k in 0..d-1 (k=d is rejected, so it is not judged here).
    for (int k = 0; k < d; k++) {
      ref::Mat p(d), n(d);
      for (int i = 0; i < k; i++) p(i, i) = 1;
      for (int i = d - k; i < d; i++) n(i, i) = 1;
      dirty(d);
      judge(c, "PosProjector", d, k, SU_vector::PosProjector(d, k), p);
      dirty(d);
      judge(c, "NegProjector", d, k, SU_vector::NegProjector(d, k), n);
    }
    // consequences, evaluated with the library's own algebra (independent monitors)
    SU_vector sum(d);
    for (int i = 0; i < d; i++) {
      SU_vector pi = SU_vector::Projector(d, i);
      sum += pi;
      for (int j = 0; j < d; j++) {
        SU_vector pj = SU_vector::Projector(d, j);
        c.eval();
        double t = pi * pj;  // Tr(P_i P_j) = delta_ij
        if (std::fabs(t - (i == j ? 1.0 : 0.0)) > 16 * EPS) c.violation("C13:Projector:not-orthonormal", vh::fmt("Tr(P_%d P_%d)=%.17g in d=%d", i, j, t, d));
        // P_i P_j = delta_ij P_i  <=>  anticommutator {P_i,P_j} = 2 delta_ij P_i
        ref::Mat prod = M(pi) * M(pj), want = (i == j) ? M(pi) : ref::Mat(d);
        if ((double)ref::maxabs(prod - want) > 16 * EPS) c.violation("C13:Projector:not-idempotent-orthogonal", vh::fmt("P_%d P_%d wrong in d=%d", i, j, d));
      }
    }
    c.eval();
    if (comp_err(sum, ref::Mat::identity(d)) > 16 * EPS) c.violation("C13:Projector:not-complete", vh::fmt("sum of projectors != identity in d=%d", d));
    for (int k = 1; k < d; k++) {
      c.eval();
      c.count("pos_plus_neg");
      SU_vector s = SU_vector::PosProjector(d, k) + SU_vector::NegProjector(d, d - k);
      c.desc(vh::fmt("PosProjector(%d,%d)+NegProjector(%d,%d)", d, k, d, d - k));
      if (comp_err(s, ref::Mat::identity(d)) > 16 * EPS) c.violation("C13:PosNeg:not-identity", vh::fmt("PosProjector(%d,%d)+NegProjector(%d,%d) != identity", d, k, d, d - k));
    }
  }
  c.end_case();
}
