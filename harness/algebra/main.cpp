// h_algebra: monitors for the pure SU_vector algebra properties
#include "alg.h"
#include <gsl/gsl_errno.h>
int main(int argc, char** argv) {
  vh::Args a = vh::parse_args(argc, argv);
  vh::Ctx c(a);
  {  // self-check of the reference: fast component extraction == definition by traces
    vh::Rng r(5, 5, 5);
    for (int d = 2; d <= 6; d++) {
      ref::Mat u = alg::random_unitary(r, d), m(d);
      std::vector<ref::real> w(d); for (auto& x : w) x = r.normal();
      m = u * alg::diag_mat(w) * ref::dag(u);
      auto a = ref::to_components_by_trace(m), b = ref::to_components_l(m);
      for (size_t i = 0; i < a.size(); i++) if (std::fabs((double)(a[i] - b[i])) > 1e-17) { fprintf(stderr, "reference self-check failed d=%d k=%zu\n", d, i); return 2; }
      ref::Mat back = ref::from_components(d, b);
      if ((double)ref::maxabs(back - m) > 1e-17) { fprintf(stderr, "reference basis self-check failed d=%d\n", d); return 2; }
      std::vector<ref::real> ev; ref::Mat V; ref::jacobi_herm(m, ev, V);
      ref::Mat rec = V * alg::diag_mat(ev) * ref::dag(V);
      if ((double)ref::maxabs(rec - m) > 1e-16) { fprintf(stderr, "reference jacobi self-check failed d=%d\n", d); return 2; }
    }
  }
  // GSL's default handler aborts; an abort inside an in-domain call is a violation, so keep it.
  if (a.prop == "C01") run_C01(c);
  else if (a.prop == "C02") run_C02(c);
  else if (a.prop == "C03") run_C03(c);
  else if (a.prop == "C06") run_C06(c);
  else if (a.prop == "C11") run_C11(c);
  else if (a.prop == "C12") run_C12(c);
  else if (a.prop == "C13") run_C13(c);
  else { fprintf(stderr, "h_algebra: unknown property %s\n", a.prop.c_str()); return 2; }
  c.write();
  return 0;
}
