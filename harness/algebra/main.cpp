// h_algebra: monitors for the pure SU_vector algebra properties
#include "alg.h"
#include <gsl/gsl_errno.h>
int main(int argc, char** argv) {
  vh::Args a = vh::parse_args(argc, argv);
  vh::Ctx c(a);
  // GSL's default handler aborts; an abort inside an in-domain call is a violation, so keep it.
  if (a.prop == "C01") run_C01(c);
  else if (a.prop == "C02") run_C02(c);
  else if (a.prop == "C03") run_C03(c);
  else if (a.prop == "C06") run_C06(c);
  else if (a.prop == "C11") run_C11(c);
  else if (a.prop == "C12") run_C12(c);
  else if (a.prop == "C13") run_C13(c);
  else { fprintf(stderr, "h_algebra: unknown property %s\n", a.prop.c_str()); return 2; }
  c.write();
  return 0;
}
