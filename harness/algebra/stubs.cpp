#include "alg.h"
void run_C02(vh::Ctx&){} void run_C03(vh::Ctx&){} void run_C06(vh::Ctx&){} void run_C11(vh::Ctx&){} void run_C12(vh::Ctx&){}
