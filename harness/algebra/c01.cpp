// C01 - SU_vector is a faithful linear image of the Hermitian matrix it represents
#include "alg.h"
using namespace alg;

namespace {
const double K = 8;

void check_to_matrix(vh::Ctx& c, int d, const Vec& comp, const char* cls) {
  SU_vector v = make(comp);
  auto g = v.GetGSLMatrix();
  ref::Mat got = from_gsl(g.get()), want = M(d, comp);
  c.eval();
  double S = maxabs(comp) * d;
  for (int i = 0; i < d; i++)
    for (int j = 0; j < d; j++) {
      double e = (double)std::abs(got(i, j) - want(i, j));
      c.worst("to_matrix.err_over_epsS", S > 0 ? e / (EPS * S) : (e > 0 ? 1e300 : 0));
      if (!(e <= K * EPS * S)) {
        c.violation(vh::fmt("C01:to-matrix:d%d:wrong-entry", d), vh::fmt("[%s] entry (%d,%d) is %.17g%+.17gi, expected %.17g%+.17gi; components %s", cls, i, j,
                    (double)got(i, j).real(), (double)got(i, j).imag(), (double)want(i, j).real(), (double)want(i, j).imag(), vh::vecstr(comp).c_str()));
        return;
      }
      // Hermitian: exactly
      if (got(i, j).real() != got(j, i).real() || got(i, j).imag() != -got(j, i).imag()) {
        c.violation(vh::fmt("C01:to-matrix:d%d:not-hermitian", d), vh::fmt("[%s] entries (%d,%d) and (%d,%d) are not conjugate; components %s", cls, i, j, j, i, vh::vecstr(comp).c_str()));
        return;
      }
    }
  // component list round trip: exact
  c.eval();
  Vec back = v.GetComponents();
  SU_vector w(back);
  if (back != comp || !(w == v) || w.Dim() != v.Dim() || memcmp(&w[0], &v[0], sizeof(double) * d * d) != 0)
    c.violation("C01:list-roundtrip", vh::fmt("[%s] GetComponents()/SU_vector(list) does not reproduce %s", cls, vh::vecstr(comp).c_str()));
  // matrix round trip: up to rounding
  c.eval();
  SU_vector m2(g.get());
  if ((int)m2.Dim() != d) { c.violation("C01:matrix-roundtrip:dim", "wrong dimension"); return; }
  for (int k = 0; k < d * d; k++) {
    double e = std::fabs(m2[k] - comp[k]);
    c.worst("roundtrip.err_over_epsS", S > 0 ? e / (EPS * S) : (e > 0 ? 1e300 : 0));
    if (!(e <= 2 * K * EPS * S)) {
      c.violation(vh::fmt("C01:matrix-roundtrip:d%d", d), vh::fmt("[%s] component %d came back as %.17g, was %.17g; components %s", cls, k, m2[k], comp[k], vh::vecstr(comp).c_str()));
      return;
    }
  }
}

void check_from_matrix(vh::Ctx& c, int d, const ref::Mat& h, const char* cls) {
  GslMat g(h);
  ref::Mat stored = rounded(h);
  SU_vector v(g.p);
  c.eval();
  if ((int)v.Dim() != d) { c.violation("C01:from-matrix:dim", "wrong dimension"); return; }
  auto want = ref::to_components_l(stored);
  double S = (double)ref::maxabs(stored) * d;
  for (int k = 0; k < d * d; k++) {
    double e = (double)std::fabs((ref::real)v[k] - want[k]);
    c.worst("from_matrix.err_over_epsS", S > 0 ? e / (EPS * S) : (e > 0 ? 1e300 : 0));
    if (!(e <= K * EPS * S)) {
      c.violation(vh::fmt("C01:from-matrix:d%d:wrong-component", d), vh::fmt("[%s] component %d is %.17g, expected %.17g", cls, k, v[k], (double)want[k]));
      return;
    }
  }
}

// a Hermitian matrix handed over as a sub-matrix VIEW of a larger one (row stride != number of columns), and the
// conversion written into such a view: both are ordinary gsl_matrix_complex objects
void check_strided(vh::Ctx& c, Rng& r, int d, const ref::Mat& h, const Vec& comp, const char* cls) {
  int big = d + 1 + (int)r.pick(3), oi = (int)r.pick(big - d + 1), oj = (int)r.pick(big - d + 1);
  gsl_matrix_complex* B = gsl_matrix_complex_alloc(big, big);
  for (int i = 0; i < big; i++) for (int j = 0; j < big; j++) gsl_matrix_complex_set(B, i, j, gsl_complex_rect(777.0 + i, -555.0 - j));
  gsl_matrix_complex_view v = gsl_matrix_complex_submatrix(B, oi, oj, d, d);
  ref::Mat stored = rounded(h);
  for (int i = 0; i < d; i++) for (int j = 0; j < d; j++) gsl_matrix_complex_set(&v.matrix, i, j, gsl_complex_rect((double)stored(i, j).real(), (double)stored(i, j).imag()));
  SU_vector fromview(&v.matrix);
  c.eval(); c.count("strided.from_matrix_view");
  auto want = ref::to_components_l(stored);
  double S = (double)ref::maxabs(stored) * d;
  for (int k = 0; k < d * d; k++) if (!(std::fabs((double)((ref::real)fromview[k] - want[k])) <= K * EPS * S)) { c.violation(vh::fmt("C01:from-matrix-view:d%d:wrong-component", d), vh::fmt("[%s] %dx%d view at (%d,%d) of a %dx%d matrix: component %d is %.17g, expected %.17g", cls, d, d, oi, oj, big, big, k, fromview[k], (double)want[k])); break; }
  // ... and the other direction, into the view; nothing outside the view may change
  for (int i = 0; i < big; i++) for (int j = 0; j < big; j++) gsl_matrix_complex_set(B, i, j, gsl_complex_rect(777.0 + i, -555.0 - j));
  SU_vector V = make(comp);
  V.GetGSLMatrix(&v.matrix);
  c.eval(); c.count("strided.to_matrix_view");
  ref::Mat wantm = M(d, comp);
  double S2 = maxabs(comp) * d;
  for (int i = 0; i < big; i++) for (int j = 0; j < big; j++) {
    gsl_complex z = gsl_matrix_complex_get(B, i, j);
    bool inside = i >= oi && i < oi + d && j >= oj && j < oj + d;
    if (inside) { ref::cx w = wantm(i - oi, j - oj); if (!(std::abs(ref::cx(GSL_REAL(z), GSL_IMAG(z)) - w) <= K * EPS * S2)) { c.violation(vh::fmt("C01:to-matrix-view:d%d:wrong-entry", d), vh::fmt("[%s] entry (%d,%d) of the view", cls, i - oi, j - oj)); i = big; break; } }
    else if (GSL_REAL(z) != 777.0 + i || GSL_IMAG(z) != -555.0 - j) { c.violation(vh::fmt("C01:to-matrix-view:d%d:wrote-outside-the-view", d), vh::fmt("[%s] entry (%d,%d) of the enclosing matrix changed", cls, i, j)); i = big; break; }
  }
  gsl_matrix_complex_free(B);
}

bool close(double got, double want, double ulps = 2) { return got == want || std::fabs(got - want) <= ulps * EPS * std::fabs(want); }

void check_ops(vh::Ctx& c, Rng& r, int d, const Vec& a, const Vec& b, double s, const char* cls) {
  int n = d * d;
  SU_vector A = make(a), B = make(b);
  auto bad = [&](const char* op, int k, double got, double want) {
    c.violation(std::string("C01:op:") + op, vh::fmt("[%s] d=%d component %d: got %.17g want %.17g (a[k]=%.17g b[k]=%.17g s=%.17g)", cls, d, k, got, want, a[k], b[k], s));
  };
#define CHECK_OP(name, expr, wantexpr, ulps)                                 \
  {                                                                          \
    SU_vector R_ = (expr);                                                   \
    c.eval(); c.count("op." name);                                           \
    if ((int)R_.Dim() != d) c.violation("C01:op:" name ":dim", "wrong dim"); \
    else for (int k = 0; k < n; k++) { double want = (wantexpr); if (!close(R_[k], want, ulps)) { bad(name, k, R_[k], want); break; } } \
  }
  CHECK_OP("add", A + B, a[k] + b[k], 0);
  CHECK_OP("sub", A - B, a[k] - b[k], 0);
  CHECK_OP("neg", -A, -a[k], 0);
  CHECK_OP("mul_right", A * s, a[k] * s, 0);
  CHECK_OP("mul_left", s * A, s * a[k], 0);
  { SU_vector T(A); T += B; CHECK_OP("add_assign", T, a[k] + b[k], 0); }
  { SU_vector T(A); T -= B; CHECK_OP("sub_assign", T, a[k] - b[k], 0); }
  { SU_vector T(A); T *= s; CHECK_OP("mul_assign", T, a[k] * s, 0); }
  if (s != 0) { SU_vector T(A); T /= s; CHECK_OP("div_assign", T, a[k] / s, 2); }
  // every value category of the operands (temporaries on either side)
  CHECK_OP("add_l_r", A + SU_vector(B), a[k] + b[k], 0);
  CHECK_OP("add_r_l", SU_vector(A) + B, a[k] + b[k], 0);
  CHECK_OP("add_r_r", SU_vector(A) + SU_vector(B), a[k] + b[k], 0);
  CHECK_OP("sub_l_r", A - SU_vector(B), a[k] - b[k], 0);
  CHECK_OP("sub_r_l", SU_vector(A) - B, a[k] - b[k], 0);
  CHECK_OP("sub_r_r", SU_vector(A) - SU_vector(B), a[k] - b[k], 0);
  CHECK_OP("sub_l_expr", A - (B + B), a[k] - (b[k] + b[k]), 0);
  CHECK_OP("neg_r", -SU_vector(A), -a[k], 0);
  CHECK_OP("mul_r", SU_vector(A) * s, a[k] * s, 0);
  CHECK_OP("lmul_r", s * SU_vector(A), s * a[k], 0);
  // the same object on both sides
  CHECK_OP("add_self", A + A, a[k] + a[k], 0);
  CHECK_OP("sub_self", A - A, a[k] - a[k], 0);
  { SU_vector T(A); T += T; CHECK_OP("add_assign_self", T, a[k] + a[k], 0); }
  { SU_vector T(A); T -= T; CHECK_OP("sub_assign_self", T, a[k] - a[k], 0); }
  { SU_vector T(A); T = T; CHECK_OP("self_assign", T, a[k], 0); }
  // expressions stored back into one of their own operands ("compound assignment ... act on the vector as the matrix
  // operations"): the allowance covers a fused multiply-add (one rounding of the product less than the model)
#define CHECK_INPLACE(name, stmt, wantexpr, magexpr)                         \
  {                                                                          \
    SU_vector T(A); stmt;                                                    \
    c.eval(); c.count("op." name);                                           \
    if ((int)T.Dim() != d) c.violation("C01:op:" name ":dim", "wrong dim"); \
    else for (int k = 0; k < n; k++) { double want = (wantexpr), mag = (magexpr); if (!(T[k] == want || std::fabs(T[k] - want) <= 2 * EPS * mag)) { bad(name, k, T[k], want); break; } } \
  }
  CHECK_INPLACE("inplace_scale", T = T * s, a[k] * s, std::fabs(a[k] * s));
  CHECK_INPLACE("inplace_add_scaled_self", T += T * s, a[k] + a[k] * s, std::fabs(a[k]) + std::fabs(a[k] * s));
  CHECK_INPLACE("inplace_sub_scaled_self", T -= s * T, a[k] - s * a[k], std::fabs(a[k]) + std::fabs(a[k] * s));
  CHECK_INPLACE("inplace_negate", T = -T, -a[k], std::fabs(a[k]));
  CHECK_INPLACE("inplace_add_other", T = T + B, a[k] + b[k], 0.0);
  CHECK_INPLACE("inplace_other_minus_self", T = B - T, b[k] - a[k], 0.0);
  CHECK_INPLACE("inplace_add_sum_with_self", T += T + B, a[k] + (a[k] + b[k]), 0.0);
  CHECK_INPLACE("inplace_sub_difference_with_self", T -= B - T, a[k] - (b[k] - a[k]), 0.0);
  CHECK_INPLACE("inplace_add_scaled_other", T += B * s, a[k] + b[k] * s, std::fabs(a[k]) + std::fabs(b[k] * s));
#undef CHECK_INPLACE
  // the scalar of a compound multiplication / division may be one of the vector's own components (v /= v[0]):
  // "scalar multiplication/division act on the vector as the matrix operation" with the value the scalar had at the call
  {
    int k0 = r.pick(n - 1);   // not the last one: everything after it would be scaled with an overwritten value
    for (int tries = 0; tries < n && (a[k0] == 0 || a[k0] == 1); tries++) k0 = (k0 + 1) % (n - 1);
    double f = a[k0];
    { SU_vector T(A); T *= T[k0]; c.eval(); c.count("op.mul_assign_by_own_component");
      for (int k = 0; k < n; k++) if (!close(T[k], a[k] * f, 0)) { bad("mul_assign_by_own_component", k, T[k], a[k] * f); break; } }
    if (f != 0) { SU_vector T(A); T /= T[k0]; c.eval(); c.count("op.div_assign_by_own_component");
      for (int k = 0; k < n; k++) if (!close(T[k], a[k] / f, 2)) { bad("div_assign_by_own_component", k, T[k], a[k] / f); break; } }
    { ExtVec E(a, d); E.v *= E.buf[k0]; c.eval();
      for (int k = 0; k < n; k++) if (!close(E.v[k], a[k] * f, 0)) { bad("mul_assign_by_own_buffer_element", k, E.v[k], a[k] * f); break; } }
    { SU_vector R_ = A * A[k0]; c.eval(); for (int k = 0; k < n; k++) if (!close(R_[k], a[k] * f, 0)) { bad("mul_by_own_component", k, R_[k], a[k] * f); break; } }
  }
  // expressions whose operands are themselves unevaluated expressions (every arithmetic member of the expression type)
  {
    Vec cc(n); for (int k = 0; k < n; k++) cc[k] = b[n - 1 - k];
    SU_vector C = make(cc);
#define CHECK_NESTED(name, expr, wantexpr, magexpr)                          \
    {                                                                        \
      SU_vector R_ = (expr);                                                 \
      c.eval(); c.count("op.nested." name);                                  \
      if ((int)R_.Dim() != d) c.violation("C01:op:nested:" name ":dim", "wrong dim"); \
      else for (int k = 0; k < n; k++) { double want = (wantexpr), mag = (magexpr); if (!(R_[k] == want || std::fabs(R_[k] - want) <= 2 * EPS * mag)) { bad("nested:" name, k, R_[k], want); break; } } \
    }
    CHECK_NESTED("(a+b)*s", (A + B) * s, (a[k] + b[k]) * s, 0.0);
    CHECK_NESTED("(a-b)+c", (A - B) + C, (a[k] - b[k]) + cc[k], 0.0);
    CHECK_NESTED("(a+b)-c", (A + B) - C, (a[k] + b[k]) - cc[k], 0.0);
    CHECK_NESTED("c+(a-b)", C + (A - B), cc[k] + (a[k] - b[k]), 0.0);
    CHECK_NESTED("-(a-b)", -(A - B), -(a[k] - b[k]), 0.0);
    CHECK_NESTED("-(move(a)-b)", -(SU_vector(A) - B), -(a[k] - b[k]), 0.0);
    CHECK_NESTED("(a+b)+(a-c)", (A + B) + (A - C), (a[k] + b[k]) + (a[k] - cc[k]), 0.0);
    CHECK_NESTED("(a+b)-(c-a)", (A + B) - (C - A), (a[k] + b[k]) - (cc[k] - a[k]), 0.0);
    CHECK_NESTED("(a*s)+(b*s)", (A * s) + (B * s), a[k] * s + b[k] * s, std::fabs(a[k] * s) + std::fabs(b[k] * s));
    CHECK_NESTED("(-a)-(-b)", (-A) - (-B), (-a[k]) - (-b[k]), 0.0);
    CHECK_NESTED("((a+b)+c)+a", ((A + B) + C) + A, ((a[k] + b[k]) + cc[k]) + a[k], 0.0);
    { SU_vector T(C); T += (A + B) * s; c.eval(); for (int k = 0; k < n; k++) { double want = cc[k] + (a[k] + b[k]) * s; if (!(std::fabs(T[k] - want) <= 2 * EPS * (std::fabs(cc[k]) + std::fabs((a[k] + b[k]) * s)))) { bad("nested:c+=(a+b)*s", k, T[k], want); break; } } }
#undef CHECK_NESTED
    if (C.GetComponents() != cc) c.violation("C01:op:operand-modified", vh::fmt("[%s] d=%d c changed", cls, d));
  }
  // the same operations on a vector that lives in user-supplied storage: identical bits, same buffer afterwards
  {
    ExtVec E(a, d);
    auto same = [&](const char* name, const SU_vector& got, const SU_vector& want) { c.eval(); if (!same_bits(got, want)) c.violation(std::string("C01:op:user-storage:") + name, vh::fmt("[%s] d=%d differs from the same operation on an owning vector", cls, d)); };
    try {
      same("add", E.v + B, A + B); same("add_reversed", B + E.v, B + A); same("sub", E.v - B, A - B); same("sub_reversed", B - E.v, B - A);
      same("neg", -E.v, -A); same("mul", E.v * s, A * s); same("real", E.v.Real(), A.Real()); same("imag", E.v.Imag(), A.Imag());
      c.eval(3);
      if (E.v.GetComponents() != a) c.violation("C01:op:user-storage:GetComponents", vh::fmt("[%s] d=%d", cls, d));
      if (!(E.v == A) || !(A == E.v)) c.violation("C01:op:user-storage:equality", vh::fmt("[%s] d=%d", cls, d));
      { auto m1 = E.v.GetGSLMatrix(); auto m2 = A.GetGSLMatrix(); if (!(from_gsl(m1.get()).a == from_gsl(m2.get()).a)) c.violation("C01:op:user-storage:GetGSLMatrix", vh::fmt("[%s] d=%d", cls, d)); }
      if (!E.bound() || E.image() != a) c.violation("C01:op:user-storage:operand-modified-or-rebound", vh::fmt("[%s] d=%d", cls, d));
      { ExtVec T(a, d); SU_vector O(A); T.v += B; O += B; same("add_assign", T.v, O); T.v -= B; O -= B; same("sub_assign", T.v, O); T.v *= s; O *= s; same("mul_assign", T.v, O); T.v.Transpose(); O.Transpose(); same("transpose", T.v, O);
        T.v = B; same("copy_assign_same_size", T.v, B); T.v = A + B; same("assign_sum", T.v, A + B);
        if (!T.bound()) c.violation("C01:op:user-storage:rebound-by-in-place-operation", vh::fmt("[%s] d=%d", cls, d)); }
      c.count("op.user_storage_block");
    } catch (std::exception& e) { c.violation("C01:op:user-storage:exception", vh::fmt("[%s] d=%d: %s", cls, d, e.what())); }
  }
  // operands untouched
  c.eval();
  if (A.GetComponents() != a || B.GetComponents() != b) c.violation("C01:op:operand-modified", vh::fmt("[%s] d=%d an operand changed", cls, d));
  // transposition, Real/Imag against the matrix definitions
  ref::Mat MA = M(d, a);
  double S = maxabs(a) * d;
  {
    SU_vector T(A); T.Transpose();
    c.eval(); c.count("op.transpose");
    double e = comp_err(T, ref::transpose(MA));
    if (!(e <= K * EPS * S)) c.violation("C01:op:transpose", vh::fmt("[%s] d=%d Transpose() differs from the matrix transpose by %.3g; a=%s", cls, d, e, vh::vecstr(a).c_str()));
    T.Transpose();
    if (T.GetComponents() != a) c.violation("C01:op:transpose-involution", vh::fmt("[%s] d=%d transposing twice changes the vector", cls, d));
  }
  {
    SU_vector Re = A.Real(), Im = A.Imag();
    c.eval(2); c.count("op.realimag");
    ref::Mat re(d), im(d);
    for (int i = 0; i < d; i++) for (int j = 0; j < d; j++) { re(i, j) = ref::cx(MA(i, j).real(), 0); im(i, j) = ref::cx(0, MA(i, j).imag()); }
    double e1 = comp_err(Re, re), e2 = comp_err(Im, im);
    if (!(e1 <= K * EPS * S)) c.violation("C01:op:real", vh::fmt("[%s] d=%d Real() differs from the entry-wise real part by %.3g; a=%s", cls, d, e1, vh::vecstr(a).c_str()));
    if (!(e2 <= K * EPS * S)) c.violation("C01:op:imag", vh::fmt("[%s] d=%d Imag() differs from i*Im(M) by %.3g; a=%s", cls, d, e2, vh::vecstr(a).c_str()));
    SU_vector sum = Re + Im;
    if (!(sum == A)) c.violation("C01:op:real-plus-imag", vh::fmt("[%s] d=%d Real()+Imag() != original", cls, d));
  }
  // equality: iff same dimension and equal components
  {
    c.eval(4); c.count("op.equality");
    SU_vector C(A);
    if (!(A == C) || !(C == A)) c.violation("C01:eq:copy-not-equal", vh::fmt("[%s] d=%d", cls, d));
    int k = r.pick(n);
    double nv = std::nextafter(a[k], r.coin() ? INFINITY : -INFINITY);
    C[k] = nv;
    if ((A == C) || (C == A)) c.violation("C01:eq:one-ulp-difference-ignored", vh::fmt("[%s] d=%d component %d: %.17g vs %.17g compare equal", cls, d, k, a[k], nv));
    {  // +0.0 and -0.0 are equal components: vectors differing only in the sign of zeros are equal
      Vec z = a; int zeros = 0;
      for (auto& x : z) if (x == 0) { x = std::signbit(x) ? 0.0 : -0.0; zeros++; }
      if (zeros) {
        SU_vector Z = make(z);
        c.count("op.equality_signed_zero");
        if (!(A == Z) || !(Z == A)) c.violation("C01:eq:signed-zeros-compare-unequal", vh::fmt("[%s] d=%d %d zero components with the opposite sign of zero", cls, d, zeros));
        // the same through an operation that produces -0.0: negating twice / transposing a vector whose antisymmetric part is 0
        SU_vector N = -SU_vector(-A);
        if (!(N == A)) c.violation("C01:eq:signed-zeros-compare-unequal", vh::fmt("[%s] d=%d -(-a) != a", cls, d));
      }
    }
    bool same = (a == b);
    if ((A == B) != same) c.violation("C01:eq:wrong-answer", vh::fmt("[%s] d=%d a==b is %d, expected %d", cls, d, (int)(A == B), (int)same));
    // different dimension, same leading components
    int d2 = d == 6 ? 5 : d + 1;
    Vec o((size_t)d2 * d2, 0.0);
    for (int q = 0; q < std::min(n, d2 * d2); q++) o[q] = a[q];
    SU_vector O = make(o);
    if ((A == O) || (O == A)) c.violation("C01:eq:different-dimensions-equal", vh::fmt("d=%d vs d=%d", d, d2));
  }
#undef CHECK_OP
}
}  // namespace

void run_C01(vh::Ctx& c) {
  // part 1 (exhaustive): every slot of the ten generated basis-change kernels, both directions
  if (c.a.shard == 0 && c.a.start == 0) {
    c.begin_case(0);
    for (int d = 2; d <= 6; d++) {
      for (int k = 0; k < d * d; k++) {
        Vec u = zero_vec(d); u[k] = 1;
        c.desc(vh::fmt("unit generator d=%d k=%d", d, k));
        check_to_matrix(c, d, u, "unit-generator");
        c.nontrivial(vh::fnv_str(vh::fmt("gen/%d/%d", d, k)));
        c.count("slot.to_matrix");
      }
      for (int i = 0; i < d; i++)
        for (int j = i; j < d; j++) {
          for (int kind = 0; kind < (i == j ? 1 : 2); kind++) {
            ref::Mat e(d);
            if (i == j) e(i, i) = 1;
            else if (kind == 0) { e(i, j) = 1; e(j, i) = 1; }
            else { e(i, j) = ref::cx(0, 1); e(j, i) = ref::cx(0, -1); }
            c.desc(vh::fmt("matrix unit d=%d (%d,%d) kind=%d", d, i, j, kind));
            check_from_matrix(c, d, e, "matrix-unit");
            c.nontrivial(vh::fnv_str(vh::fmt("unit/%d/%d/%d/%d", d, i, j, kind)));
            c.count("slot.from_matrix");
          }
        }
    }
    c.end_case();
  }
  // part 2: value classes
  long N = c.n(60000, 1500000);
  static const double scalars[] = {0.0, 1.0, -1.0, 2.0, 0.5, 1e10, -1e-10, 3.0, 1.0 / 3.0};
  vh::run_cases(c, 1, N + 1, [&](long idx, Rng& r) {
    if (idx == 0) return;  // index 0 is the exhaustive part
    int d = 2 + (int)(idx % 5);
    int ca = pick_cls(r), cb = pick_cls(r);
    Vec a = gen_vec(r, d, ca), b = gen_vec(r, d, cb);
    double s = r.coin(0.5) ? scalars[r.pick(9)] : r.normal() * std::pow(10.0, r.range(-3, 3));
    c.desc(vh::fmt("d=%d a[%s]=%s b[%s]=%s s=%.17g", d, cls_name[ca], vh::vecstr(a).c_str(), cls_name[cb], vh::vecstr(b).c_str(), s));
    c.count(vh::fmt("cls.%s", cls_name[ca]));
    c.count(vh::fmt("dim.%d", d));
    if (nontrivial_vec(a, ca)) c.nontrivial(vh::fnv_d(a.data(), a.size(), vh::fnv_u(d, ca)));
    check_to_matrix(c, d, a, cls_name[ca]);
    // a Hermitian matrix of the same class, given as a matrix (not produced by the library)
    {
      ref::Mat h = M(d, b);
      if (r.coin(0.3)) { ref::Mat u = random_unitary(r, d); h = u * h * ref::dag(u); h = ref::real(0.5) * (h + ref::dag(h)); }
      check_from_matrix(c, d, h, cls_name[cb]);
      if (idx % 3 == 0) check_strided(c, r, d, h, a, cls_name[cb]);
    }
    check_ops(c, r, d, a, b, s, cls_name[ca]);
    if (idx < 4) c.sample(c.cur_desc.substr(0, 300));
  });
}
