// C11 - averaging and low-pass filters remove exactly the documented fast oscillations
#include "alg.h"
#include <SQuIDS/SQuIDS.h>
using namespace alg;

namespace {
const double K = 64;

// ---- the pair order of the tables is learned from the unaveraged table, never assumed
struct PairMap { int np; int pi[15], pj[15]; int sgn[15]; bool ok; std::string why; };
PairMap learn_map(int d) {
  PairMap m; m.np = d * (d - 1) / 2; m.ok = true;
  static const double lev[6] = {0, 0.1, 0.25, 0.55, 1.15, 2.35};  // all differences distinct and < pi
  std::vector<ref::real> w(lev, lev + d);
  Vec h = ref::to_components(diag_mat(w));
  SU_vector H = make(h);
  std::vector<double> buf(d * (d - 1));
  H.PrepareEvolve(buf.data(), 1.0);
  std::vector<bool> used(36, false);
  for (int p = 0; p < m.np; p++) {
    double ang = std::atan2(buf[m.np + p], buf[p]);
    int found = -1, sg = 0;
    for (int i = 0; i < d; i++) for (int j = i + 1; j < d; j++)
      for (int s = -1; s <= 1; s += 2)
        if (std::fabs(ang - s * (lev[i] - lev[j])) < 1e-9) { found = i * 6 + j; sg = s; }
    if (found < 0 || used[found]) { m.ok = false; m.why = vh::fmt("table entry %d (angle %.6f) matches no unused level pair", p, ang); return m; }
    used[found] = true; m.pi[p] = found / 6; m.pj[p] = found % 6; m.sgn[p] = sg;
  }
  return m;
}

std::vector<ref::real> levels(int d, const Vec& h) { return levels_traceless(d, h); }
// documented filter factor as a function of x=|omega| (or |omega t|)
ref::real ramp_factor(ref::real x, ref::real cutoff, ref::real ramp) {
  cutoff = std::fabs(cutoff); ramp = std::fabs(ramp);
  if (x > cutoff) return 0;
  if (x > cutoff - ramp) return (cutoff - x) / ramp;
  return 1;
}
// exactly representable family: only the first diagonal generator, small integer weights and times
Vec exact_H(Rng& r, int d) { Vec h = zero_vec(d); h[d + 1] = r.range(-4, 4); h[0] = r.range(-2, 2); return h; }

struct Probe : public squids::SQuIDS {
  std::vector<Vec> h0;  // per node: H0 components at the node;   H0(x) = h0a + x*h0b
  Vec ha, hb;
  int d;
  Probe(unsigned nx, unsigned dd, const Vec& a, const Vec& b, double ti) : squids::SQuIDS(nx, dd, 1, 0, ti), ha(a), hb(b), d(dd) {}
  Vec h0_at(double x) const { Vec v(ha.size()); for (size_t i = 0; i < v.size(); i++) v[i] = ha[i] + x * hb[i]; return v; }
  squids::SU_vector H0(double x, unsigned int) const override { return SU_vector(h0_at(x)); }
  void set_state(unsigned ix, const Vec& v) { for (size_t k = 0; k < v.size(); k++) state[ix].rho[0][k] = v[k]; }
  void set_time(double t) { Set_t(t); }
};
}  // namespace

void run_C11(vh::Ctx& c) {
  PairMap maps[7];
  for (int d = 2; d <= 6; d++) maps[d] = learn_map(d);
  long N = c.n(30000, 800000);
  vh::run_cases(c, 11, N, [&](long idx, Rng& r) {
    int d = 2 + (int)(idx % 5), np = d * (d - 1) / 2;
    const PairMap& pm = maps[d];
    if (!pm.ok) { c.desc(vh::fmt("pair map d=%d", d)); c.violation(vh::fmt("C11:pair-map:d%d:not-a-bijection", d), pm.why); return; }
    int kind = (int)((idx / 5) % 5);  // 0 threshold, 1 lowpass, 2 avgramp, 3 interval, 4 expectation values
    bool exact = r.coin(0.25);
    int hc = r.pick(NH);
    Vec h = exact ? exact_H(r, d) : gen_H(r, d, hc);
    double t = exact ? (double)r.range(-6, 6) : (r.coin(0.2) ? 0.0 : r.sign() * r.logu(1e-6, 1e6));
    auto w = levels(d, h);
    std::vector<ref::real> om(np);
    for (int p = 0; p < np; p++) om[p] = pm.sgn[p] * (w[pm.pi[p]] - w[pm.pj[p]]);
    double W = Wscale(d, h);
    SU_vector H = make(h);
    c.count(vh::fmt("dim.%d", d)); c.count(exact ? "family.exact" : std::string("H.") + hname[hc]);
    c.nontrivial(vh::fnv_d(h.data(), h.size(), vh::fnv_d(&t, 1, kind)));
    int degenerate_pairs = 0; for (int p = 0; p < np; p++) if (om[p] == 0) degenerate_pairs++;
    if (degenerate_pairs) c.count("cases_with_coincident_levels");
    std::string base = vh::fmt("d=%d kind=%d exact=%d H[%s]=%s t=%.17g", d, kind, (int)exact, exact ? "exact" : hname[hc], vh::vecstr(h).c_str(), t);
    size_t bs = H.GetEvolveBufferSize();
    double* plain = (double*)malloc(bs * sizeof(double));
    double* buf = (double*)malloc(bs * sizeof(double));
    H.PrepareEvolve(plain, t);

    if (kind == 0) {
      // ---- threshold averaging
      double scale;
      int m = r.pick(4);
      int q = r.pick(np);
      double xq = std::fabs((double)(om[q] * (ref::real)t));
      if (exact && m < 2) scale = r.sign() * xq;                     // exactly at a threshold: "exceeds" is strict
      else if (m == 0) scale = xq * r.uni(0.5, 1.5) * r.sign();
      else if (m == 1) scale = r.sign() * r.logu(1e-6, 1e6);
      else if (m == 2) scale = 0.0;
      else scale = r.sign() * xq * (1 + r.sign() * 1e-3);
      c.desc(base + vh::fmt(" scale=%.17g", scale));
      std::vector<bool> avr(np, r.coin());
      for (size_t i = 0; i < bs; i++) buf[i] = NAN;
      H.PrepareEvolve(buf, t, scale, avr);
      c.eval(np);
      for (int p = 0; p < np; p++) {
        ref::real x = std::fabs(om[p] * (ref::real)t), s = std::fabs((ref::real)scale);
        bool border = !exact && std::fabs((double)(x - s)) <= 1e-11 * (double)std::max(x, s) + 4 * EPS * W * std::fabs(t);
        if (border) { c.count("borderline_skipped"); continue; }
        bool want = x > s;
        c.count(want ? "threshold.flagged" : "threshold.kept");
        if (exact && x == s) c.count("threshold.exactly_at_scale");
        std::string pd = vh::fmt(" pair %d=(%d,%d) |omega t|=%.17g", p, pm.pi[p], pm.pj[p], (double)x);
        if (avr[p] != want) { c.violation(vh::fmt("C11:threshold:d%d:wrong-flag", d), c.cur_desc + pd + vh::fmt(" flag=%d expected %d", (int)avr[p], (int)want)); continue; }
        if (want) { if (buf[p] != 0 || buf[np + p] != 0) c.violation(vh::fmt("C11:threshold:d%d:flagged-entry-not-zero", d), c.cur_desc + pd); }
        else if (memcmp(&buf[p], &plain[p], 8) || memcmp(&buf[np + p], &plain[np + p], 8)) c.violation(vh::fmt("C11:threshold:d%d:kept-entry-differs-from-plain-table", d), c.cur_desc + pd + vh::fmt(" cos %.17g vs %.17g sin %.17g vs %.17g", buf[p], plain[p], buf[np + p], plain[np + p]));
      }
    } else if (kind == 1 || kind == 2) {
      // ---- LowPassFilter (on |omega|) / AvgRampFilter (on |omega t|)
      bool lp = kind == 1;
      int q = r.pick(np);
      double xq = std::fabs((double)(lp ? om[q] : om[q] * (ref::real)t));
      double cutoff, ramp;
      int m = r.pick(5);
      if (exact) { cutoff = r.range(0, 8) * r.sign(); int rc = r.pick(3); ramp = rc == 0 ? 0 : (rc == 1 ? cutoff : (double)r.range(0, (int)std::fabs(cutoff))) * r.sign(); }
      else {
        cutoff = (m == 0 ? xq * r.uni(0.3, 3) : r.logu(1e-6, 1e6)) * r.sign();
        int rc = r.pick(4);
        ramp = (rc == 0 ? 0 : rc == 1 ? cutoff : std::fabs(cutoff) * r.u01()) * r.sign();
      }
      for (size_t i = 0; i < bs; i++) buf[i] = r.coin(0.5) ? plain[i] : r.normal();
      std::vector<double> before(buf, buf + bs);
      c.desc(base + vh::fmt(" %s cutoff=%.17g ramp=%.17g", lp ? "LowPassFilter" : "AvgRampFilter", cutoff, ramp));
      // a ramp wider than the cutoff is rejected, buffer untouched
      if (r.coin(0.15)) {
        double badramp = std::fabs(cutoff) * (1 + r.logu(1e-12, 10)) + (cutoff == 0 ? r.logu(1e-9, 1) : 0);
        if (std::fabs(badramp) > std::fabs(cutoff)) {
          bool threw = false;
          try { if (lp) H.LowPassFilter(buf, cutoff, badramp * r.sign()); else H.AvgRampFilter(buf, t, cutoff, badramp * r.sign()); } catch (std::runtime_error&) { threw = true; }
          c.eval(); c.count("ramp_wider_than_cutoff");
          if (!threw) c.violation(vh::fmt("C11:%s:too-wide-ramp-accepted", lp ? "lowpass" : "avgramp"), c.cur_desc + vh::fmt(" ramp=%.17g", badramp));
          else if (memcmp(buf, before.data(), bs * 8)) c.violation(vh::fmt("C11:%s:buffer-modified-before-rejection", lp ? "lowpass" : "avgramp"), c.cur_desc);
          memcpy(buf, before.data(), bs * 8);
        }
      }
      if (lp) H.LowPassFilter(buf, cutoff, ramp); else H.AvgRampFilter(buf, t, cutoff, ramp);
      c.eval(np);
      for (int p = 0; p < np; p++) {
        ref::real x = std::fabs(lp ? om[p] : om[p] * (ref::real)t);
        ref::real f = ramp_factor(x, cutoff, ramp);
        if (!exact) {
          // the frequency itself carries rounding of order eps*W (times |t|): judge only where the
          // documented factor is insensitive to it
          ref::real dx = 8 * EPS * (lp ? W : W * std::fabs(t)) + 1e-13L * x;
          ref::real f1 = ramp_factor(x > dx ? x - dx : 0, cutoff, ramp), f2 = ramp_factor(x + dx, cutoff, ramp);
          if (std::fabs((double)(f1 - f2)) > 1e-6) { c.count("borderline_skipped"); continue; }
        } else if (ramp == 0 && x == std::fabs((ref::real)cutoff)) { c.count("ambiguous_equality_skipped"); continue; }
        c.count(f == 0 ? "ramp.zero" : (f == 1 ? "ramp.one" : "ramp.inside"));
        for (int part = 0; part < 2; part++) {
          int e = part * np + p;
          double want = (double)(f * (ref::real)before[e]);
          // exact family: 0 and 1 are exact; otherwise the documented factor is known to 1e-6 here
          double tol = exact ? ((f == 0 || f == 1) ? 0 : 8 * EPS * std::fabs(before[e])) : 2e-6 * std::fabs(before[e]);
          if (!(std::fabs(buf[e] - want) <= tol)) { c.violation(vh::fmt("C11:%s:d%d:wrong-factor", lp ? "lowpass" : "avgramp", d), c.cur_desc + vh::fmt(" pair %d=(%d,%d) x=%.17g entry %d: %.17g -> %.17g, documented factor %.17g", p, pm.pi[p], pm.pj[p], (double)x, e, before[e], buf[e], (double)f)); break; }
        }
      }
    } else if (kind == 3) {
      // ---- interval average
      double t0 = exact ? (double)r.range(-5, 5) : r.normal() * std::pow(10.0, r.range(-2, 3));
      double dt = exact ? (double)r.range(1, 6) : r.logu(1e-3, 1e3);
      double t1 = t0 + dt; dt = t1 - t0;
      Vec a = gen_vec(r, d, pick_cls(r), 50);
      c.desc(base + vh::fmt(" interval [%.17g,%.17g] A=%s", t0, t1, vh::vecstr(a).c_str()));
      for (size_t i = 0; i < bs; i++) buf[i] = 12345.678;
      H.PrepareEvolve(buf, t0, t1);
      c.eval(np);
      bool fin = true;
      for (int p = 0; p < np; p++) for (int part = 0; part < 2; part++) if (!std::isfinite(buf[part * np + p])) {
        fin = false;
        if (std::fabs((double)om[p]) <= 8 * EPS * W) c.violation(vh::fmt("C11:interval:d%d:non-finite-for-coincident-levels", d), c.cur_desc + vh::fmt(" pair %d=(%d,%d) entry=%g", p, pm.pi[p], pm.pj[p], buf[part * np + p]));
        else c.violation(vh::fmt("C11:interval:d%d:non-finite", d), c.cur_desc + vh::fmt(" pair %d=(%d,%d) omega=%.17g entry=%g", p, pm.pi[p], pm.pj[p], (double)om[p], buf[part * np + p]));
        break;
      }
      // table entries against the exact average of cos / sin, pair by pair (through the learned map)
      double ma = maxabs(a), tmax = std::max(std::fabs(t0), std::fabs(t1));
      for (int p = 0; p < np; p++) {
        if (!std::isfinite(buf[p]) || !std::isfinite(buf[np + p])) continue;
        ref::real o = om[p], x = o * (ref::real)dt;
        ref::cx avg;  // average of exp(i o t) over [t0,t1]
        if (std::fabs((double)x) < 1e-3) { ref::cx term = 1, sum = 0, ix(0, x); for (int k = 0; k < 12; k++) { sum += term; term *= ix / (ref::real)(k + 2); } avg = sum * ref::cx(std::cos(o * (ref::real)t0), std::sin(o * (ref::real)t0)); }
        else avg = (ref::cx(std::cos(o * (ref::real)t1), std::sin(o * (ref::real)t1)) - ref::cx(std::cos(o * (ref::real)t0), std::sin(o * (ref::real)t0))) / (ref::cx(0, 1) * x);
        double tolp = K * EPS * (1 + (x != 0 ? 1 / std::fabs((double)x) : 0)) * (1 + W * tmax);
        if (tolp > 1e-3) { c.count("interval.ill_conditioned_skipped"); continue; }
        c.count(o == 0 ? "interval.coincident_judged" : "interval.pair_judged");
        c.worst("interval.err_over_tol", std::max(std::fabs(buf[p] - (double)avg.real()), std::fabs(buf[np + p] - (double)avg.imag())) / tolp);
        if (!(std::fabs(buf[p] - (double)avg.real()) <= tolp) || !(std::fabs(buf[np + p] - (double)avg.imag()) <= tolp))
          c.violation(vh::fmt("C11:interval:d%d:wrong-average", d), c.cur_desc + vh::fmt(" pair %d=(%d,%d) omega=%.17g: table (cos,sin)=(%.17g,%.17g), exact average (%.17g,%.17g)", p, pm.pi[p], pm.pj[p], (double)o, buf[p], buf[np + p], (double)avg.real(), (double)avg.imag()));
      }
      // Evolve(buffer) equals the exact time average of Evolve(H,t): entry (i,j) of A is multiplied
      // by the average of exp(i (h_i-h_j) t)
      if (fin) {
        SU_vector A = make(a);
        SU_vector E = A.Evolve(buf);
        ref::Mat MA = M(d, a), want(d), got = M(E);
        c.eval();
        double worsttol = 0; bool skip = false;
        for (int i = 0; i < d; i++) for (int j = 0; j < d; j++) {
          ref::real o = w[i] - w[j], x = o * (ref::real)dt;
          ref::cx avg;
          if (std::fabs((double)x) < 1e-3) { ref::cx term = 1, sum = 0, ix(0, x); for (int k = 0; k < 12; k++) { sum += term; term *= ix / (ref::real)(k + 2); } avg = sum * ref::cx(std::cos(o * (ref::real)t0), std::sin(o * (ref::real)t0)); }
          else avg = (ref::cx(std::cos(o * (ref::real)t1), std::sin(o * (ref::real)t1)) - ref::cx(std::cos(o * (ref::real)t0), std::sin(o * (ref::real)t0))) / (ref::cx(0, 1) * x);
          want(i, j) = MA(i, j) * avg;
          double tolp = K * EPS * (1 + (x != 0 ? 1 / std::fabs((double)x) : 0)) * (1 + W * tmax);
          if (tolp > 1e-3) skip = true;
          worsttol = std::max(worsttol, tolp);
        }
        if (!skip) {
          double e = (double)ref::maxabs(got - want);
          if (!(e <= worsttol * d * ma)) c.violation(vh::fmt("C11:interval:d%d:evolve-differs-from-time-average", d), c.cur_desc + vh::fmt(" off by %.3g (tolerance %.3g)", e, worsttol * d * ma));
          c.count("interval.evolve_judged");
        }
        // the averaged table applied in place and to a vector on user storage: the same bits as into a fresh vector
        {
          SU_vector X = make(a); X = X.Evolve(buf);
          ExtVec EX(a, d); SU_vector E2 = EX.v.Evolve(buf); EX.v = EX.v.Evolve(buf);
          SU_vector Y = make(a); Y += Y.Evolve(buf); SU_vector Y2 = make(a); Y2 += E;
          c.eval(4); c.count("interval.evolve_in_place_forms", 4);
          if (!same_bits(X, E)) c.violation(vh::fmt("C11:interval:d%d:evolve-in-place-differs", d), c.cur_desc + " X = X.Evolve(table)");
          if (!same_bits(E2, E) || !same_bits(EX.v, E) || !EX.bound()) c.violation(vh::fmt("C11:interval:d%d:evolve-differs-for-a-vector-on-user-storage", d), c.cur_desc);
          // (the accumulating form may be contracted into fused multiply-adds: one rounding less than a[k] + E[k])
          for (int k = 0; k < d * d; k++) if (!(std::fabs(Y[k] - Y2[k]) <= 8 * EPS * d * (std::fabs(a[k]) + ma))) { c.violation(vh::fmt("C11:interval:d%d:evolve-in-place-differs", d), c.cur_desc + " X += X.Evolve(table)"); break; }
        }
      }
    } else {
      // ---- averaged expectation values of the solver class built on the same tables
      unsigned nx = 2 + r.pick(3);
      Vec hb = exact ? exact_H(r, d) : gen_H(r, d, r.pick(NH));
      double tini = exact ? (double)r.range(-3, 3) : (r.coin(0.3) ? 0.0 : r.normal() * 3);  // the tables depend on t - t_ini, never on t alone
      Probe P(nx, d, h, hb, tini);
      std::vector<double> xs(nx); double x0 = exact ? (double)r.range(0, 3) : r.uni(0.1, 2);
      for (unsigned i = 0; i < nx; i++) { xs[i] = x0; x0 += exact ? (double)r.range(1, 3) : r.uni(0.1, 2); }
      P.Set_xrange(xs);
      std::vector<Vec> st(nx);
      for (unsigned i = 0; i < nx; i++) { st[i] = gen_vec(r, d, DENSE); P.set_state(i, st[i]); }
      double tau = exact ? (double)r.range(-5, 5) : t;
      P.set_time(tini + tau);
      tau = P.Get_t() - P.Get_t_initial();
      Vec o = gen_vec(r, d, pick_cls(r), 20);
      SU_vector O = make(o);
      unsigned ix = r.pick(nx);
      bool atnode = r.coin(0.4);
      double x = atnode ? xs[ix] : r.uni(xs[0], xs[nx - 1]);
      if (exact && !atnode) x = xs[0] + r.range(0, (int)(xs[nx - 1] - xs[0]));
      unsigned lo = 0; while (lo + 2 < nx && xs[lo + 1] < x) lo++;
      Vec hx = P.h0_at(x);
      auto wx = levels(d, hx);
      std::vector<ref::real> omx(np);
      for (int p = 0; p < np; p++) omx[p] = pm.sgn[p] * (wx[pm.pi[p]] - wx[pm.pj[p]]);
      int q = r.pick(np);
      double xq = std::fabs((double)(omx[q] * (ref::real)tau));
      int m = r.pick(4);
      double scale = m == 0 ? 1e300 : (m == 1 ? xq * (exact ? 1.0 : r.uni(0.5, 1.5)) : (m == 2 ? 0.0 : r.logu(1e-3, 1e3)));
      c.desc(base + vh::fmt(" nodes=%s x=%.17g tau=%.17g scale=%.17g O=%s Hx=%s", vh::vecstr(xs).c_str(), x, tau, scale, vh::vecstr(o).c_str(), vh::vecstr(hx).c_str()));
      std::vector<bool> want(np); bool border = false;
      double Wx = Wscale(d, hx);
      for (int p = 0; p < np; p++) {
        ref::real xx = std::fabs(omx[p] * (ref::real)tau), s = std::fabs((ref::real)scale);
        if (!exact && std::fabs((double)(xx - s)) <= 1e-11 * (double)std::max(xx, s) + 8 * EPS * Wx * std::fabs(tau)) border = true;
        want[p] = xx > s;
      }
      if (border) { c.count("borderline_skipped"); free(plain); free(buf); return; }
      // reference: Tr(rho * O') with O' = e^{iH0 tau} O e^{-iH0 tau}, flagged pairs removed
      auto expect = [&](const Vec& rho) {
        ref::Mat MO = M(d, o), MR = M(d, rho), OE(d);
        for (int i = 0; i < d; i++) for (int j = 0; j < d; j++) { ref::real ph = (wx[i] - wx[j]) * (ref::real)tau; OE(i, j) = MO(i, j) * ref::cx(std::cos(ph), std::sin(ph)); }
        for (int p = 0; p < np; p++) if (want[p]) { OE(pm.pi[p], pm.pj[p]) = 0; OE(pm.pj[p], pm.pi[p]) = 0; }
        return (double)ref::trace(MR * OE).real();
      };
      double tol = K * EPS * 2.0 * d * d * maxabs(o) * (1 + Wx * std::fabs(tau)) * 3;
      std::vector<bool> avr(np, false);
      if (atnode) {
        double got = P.GetExpectationValue(O, 0, ix, scale, avr);
        c.eval(); c.count("expectation.node_form");
        for (int p = 0; p < np; p++) if (avr[p] != want[p]) { c.violation(vh::fmt("C11:expectation:d%d:wrong-flag", d), c.cur_desc + vh::fmt(" pair %d", p)); break; }
        double e = std::fabs(got - expect(st[ix]));
        if (!(e <= tol * maxabs(st[ix]))) c.violation(vh::fmt("C11:expectation:d%d:node-form-wrong-value", d), c.cur_desc + vh::fmt(" got %.17g expected %.17g", got, expect(st[ix])));
        if (scale == 1e300) { double plainv = P.GetExpectationValue(O, 0, ix); if (!(std::fabs(plainv - got) <= tol * maxabs(st[ix]))) c.violation(vh::fmt("C11:expectation:d%d:unreachable-scale-differs-from-plain", d), c.cur_desc); }
      }
      {
        std::vector<bool> avr2(np, false);
        double got = P.GetExpectationValueD(O, 0, x, scale, avr2);
        c.eval(); c.count("expectation.interpolated_form");
        for (int p = 0; p < np; p++) if (avr2[p] != want[p]) { c.violation(vh::fmt("C11:expectationD:d%d:wrong-flag", d), c.cur_desc + vh::fmt(" pair %d", p)); break; }
        ref::real f2 = ((ref::real)x - xs[lo]) / ((ref::real)xs[lo + 1] - xs[lo]), f1 = 1 - f2;
        if (atnode) { // at a node the bracket may be either neighbour interval; the value is the node's
          double e = std::fabs(got - expect(st[ix]));
          if (!(e <= 4 * tol * (maxabs(st[ix]) + 1))) c.violation(vh::fmt("C11:expectationD:d%d:wrong-value-at-node", d), c.cur_desc + vh::fmt(" got %.17g expected %.17g", got, expect(st[ix])));
        } else {
          double wantv = (double)(f1 * expect(st[lo]) + f2 * expect(st[lo + 1]));
          double e = std::fabs(got - wantv);
          if (!(e <= 4 * tol * (maxabs(st[lo]) + maxabs(st[lo + 1])))) c.violation(vh::fmt("C11:expectationD:d%d:wrong-value", d), c.cur_desc + vh::fmt(" got %.17g expected %.17g", got, wantv));
        }
        if (scale == 1e300) { double plainv = P.GetExpectationValueD(O, 0, x); if (!(std::fabs(plainv - got) <= 8 * tol * (maxabs(st[lo]) + maxabs(st[lo + 1]) + 1))) c.violation(vh::fmt("C11:expectationD:d%d:unreachable-scale-differs-from-plain", d), c.cur_desc + vh::fmt(" plain %.17g averaged %.17g", plainv, got)); }
      }
    }
    free(plain); free(buf);
    if (idx < 10) c.sample(c.cur_desc.substr(0, 500));
  });
}
