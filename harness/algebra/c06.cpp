// C06 - basis rotations are unitary similarity maps, consistent across all entry points
#include "alg.h"
#include <SQuIDS/const.h>
using namespace alg;

namespace {
const double K = 64;
const double PI = 3.14159265358979323846;

double gen_angle(Rng& r, int& cls) {
  cls = r.pick(10);
  switch (cls) {
    case 0: return 0.0;
    case 1: return r.sign() * PI / 2;
    case 2: return r.sign() * PI;
    case 3: return 2 * PI + r.uni(0, 1);
    case 4: return -r.uni(0, 1.5);
    case 5: return r.logu(1e-12, 1e-6);
    case 6: return r.sign() * r.uni(100, 1000);
    case 7: return PI / 4;
    default: return r.uni(-PI, PI);
  }
}
ref::Mat plane(int d, int i, int j, double th, double de) {
  ref::Mat R = ref::Mat::identity(d);
  ref::real c = std::cos((ref::real)th), s = std::sin((ref::real)th);
  ref::cx sp = s * ref::cx(std::cos((ref::real)de), -std::sin((ref::real)de));
  R(i, i) = c; R(j, j) = c; R(i, j) = sp; R(j, i) = -std::conj(sp);
  return R;
}
struct Angles { double th[6][6], de[6][6]; };
void fill_const(squids::Const& k, const Angles& a) {
  for (int j = 1; j < 6; j++) for (int i = 0; i < j; i++) { k.SetMixingAngle(i, j, a.th[i][j]); k.SetPhase(i, j, a.de[i][j]); }
}
// U = R_{d-2,d-1} ... R_{1,2} R_{0,2} R_{0,1}  (each new plane rotation multiplies from the left)
ref::Mat mixing(int d, const Angles& a) {
  ref::Mat U = ref::Mat::identity(d);
  for (int j = 1; j < d; j++) for (int i = 0; i < j; i++) U = plane(d, i, j, a.th[i][j], a.de[i][j]) * U;
  return U;
}
void cmp(vh::Ctx& c, const std::string& key, const SU_vector& got, const ref::Mat& want, double tol, const std::string& what) {
  c.eval();
  int w = -1;
  double e = comp_err(got, want, &w);
  c.worst(key.substr(0, key.find(":d")) + ".err_over_tol", tol > 0 ? e / tol : (e > 0 ? 1e300 : 0));
  if (!(e <= tol)) c.violation(key, what + vh::fmt(": component %d off by %.3g (tolerance %.3g)", w, e, tol));
}
void plane_case(vh::Ctx& c, int d, int i, int j, double th, double de, const Vec& a, const char* cls) {
  SU_vector A = make(a);
  ref::Mat MA = M(d, a), R = plane(d, i, j, th, de);
  double tol = K * EPS * d * maxabs(a);
  std::string what = vh::fmt("Rotate(%d,%d,theta=%.17g,delta=%.17g) d=%d A[%s]=%s", i, j, th, de, d, cls, vh::vecstr(a).c_str());
  c.desc(what);
  SU_vector Rt = A.Rotate(i, j, th, de);
  cmp(c, vh::fmt("C06:plane:d%d:%d%d:wrong-value", d, i, j), Rt, ref::dag(R) * MA * R, tol, what);
  if (Rt[0] != a[0] && !(std::fabs(Rt[0] - a[0]) <= 4 * EPS * d * maxabs(a))) c.violation(vh::fmt("C06:plane:d%d:identity-component-changed", d), what);
  if (A.GetComponents() != a) c.violation("C06:plane:operand-modified", what);
  c.count(vh::fmt("kernel.%d_%d%d", d, i, j));
}
}  // namespace

void run_C06(vh::Ctx& c) {
  // enumerate the 35 generated kernels
  struct Kn { int d, i, j; };
  std::vector<Kn> kern;
  for (int d = 2; d <= 6; d++) for (int i = 0; i < d; i++) for (int j = i + 1; j < d; j++) kern.push_back({d, i, j});
  static const double special[] = {0.0, PI / 2, -PI / 2, PI, -PI, 2 * PI + 0.3, -0.7, PI / 4, 1e-9, 1.0, 3.0, 500.25};
  const int NS = 12;
  long part1 = (long)kern.size() * NS * NS;            // every kernel x special theta x special delta
  long N = c.n(12000, 300000);
  vh::run_cases(c, 6, part1 + N + 1, [&](long idx, Rng& r) {
    if (idx < part1) {
      Kn k = kern[idx / (NS * NS)];
      double th = special[(idx / NS) % NS], de = special[idx % NS];
      // one generator sweep entry + one dense input per cell
      Vec g = zero_vec(k.d); g[(idx * 7) % (k.d * k.d)] = 1;
      plane_case(c, k.d, k.i, k.j, th, de, g, "generator");
      plane_case(c, k.d, k.i, k.j, th, de, gen_vec(r, k.d, DENSE), "dense");
      c.nontrivial(vh::fnv_str(vh::fmt("k/%d/%d/%d/%ld", k.d, k.i, k.j, idx % (NS * NS))));
      c.count("cells.kernel_x_special_angles");
      return;
    }
    if (idx == part1) {
      // Const parameter store: read back exactly; out-of-range indices rejected (0..8 x 0..8)
      squids::Const k;
      int admitted = 0, rejected = 0;
      for (unsigned i = 0; i <= 8; i++)
        for (unsigned j = 0; j <= 8; j++) {
          bool ok = (i < j) && j < 6;
          double v = r.normal() * 100, p = r.normal() * 100;
          bool threw = false, threwP = false, threwG = false, threwGP = false;
          try { k.SetMixingAngle(i, j, v); } catch (std::exception&) { threw = true; }
          try { k.SetPhase(i, j, p); } catch (std::exception&) { threwP = true; }
          double gv = 0, gp = 0;
          try { gv = k.GetMixingAngle(i, j); } catch (std::exception&) { threwG = true; }
          try { gp = k.GetPhase(i, j); } catch (std::exception&) { threwGP = true; }
          c.eval(4);
          c.desc(vh::fmt("Const indices (%u,%u)", i, j));
          if (ok) {
            admitted++;
            if (threw || threwP || threwG || threwGP) c.violation("C06:const:admissible-pair-rejected", c.cur_desc);
            else if (gv != v || gp != p) c.violation("C06:const:readback-differs", c.cur_desc + vh::fmt(" angle %.17g->%.17g phase %.17g->%.17g", v, gv, p, gp));
          } else {
            rejected++;
            if (!threw || !threwP || !threwG || !threwGP) c.violation("C06:const:inadmissible-pair-accepted", c.cur_desc + vh::fmt(" set-angle threw=%d set-phase threw=%d get-angle threw=%d get-phase threw=%d", threw, threwP, threwG, threwGP));
          }
        }
      // all admissible pairs keep their own value (no two pairs share a slot)
      {
        squids::Const q; double base = 0.125;
        for (int j = 1; j < 6; j++) for (int i = 0; i < j; i++) { q.SetMixingAngle(i, j, base * (10 * i + j)); q.SetPhase(i, j, -base * (10 * i + j)); }
        for (int j = 1; j < 6; j++) for (int i = 0; i < j; i++) if (q.GetMixingAngle(i, j) != base * (10 * i + j) || q.GetPhase(i, j) != -base * (10 * i + j)) c.violation("C06:const:pairs-share-a-slot", vh::fmt("(%d,%d)", i, j));
        for (unsigned u = 1; u < 6; u++) q.SetEnergyDifference(u, 3.5 * u);
        for (unsigned u = 1; u < 6; u++) if (q.GetEnergyDifference(u) != 3.5 * u) c.violation("C06:const:energy-difference-readback", vh::fmt("upper=%u", u));
        for (int j = 1; j < 6; j++) for (int i = 0; i < j; i++) if (q.GetMixingAngle(i, j) != base * (10 * i + j)) c.violation("C06:const:energy-difference-overwrites-angle", vh::fmt("(%d,%d)", i, j));
      }
      for (unsigned u = 0; u <= 8; u++) {
        bool ok = u >= 1 && u < 6, t1 = false, t2 = false;
        try { k.SetEnergyDifference(u, 1.5); } catch (std::exception&) { t1 = true; }
        try { (void)k.GetEnergyDifference(u); } catch (std::exception&) { t2 = true; }
        c.eval(2);
        if (ok && (t1 || t2)) c.violation("C06:const:admissible-energy-index-rejected", vh::fmt("upper=%u", u));
        if (!ok && (!t1 || !t2)) c.violation("C06:const:inadmissible-energy-index-accepted", vh::fmt("upper=%u", u));
      }
      c.count("const.admitted", admitted); c.count("const.rejected", rejected);
      return;
    }
    // random parameter sets
    int d = 2 + (int)(idx % 5);
    int ac = pick_cls(r), dummy;
    Vec a = gen_vec(r, d, ac, 100), b = gen_vec(r, d, DENSE);
    double ma = maxabs(a);
    Angles ang;
    for (int i = 0; i < 6; i++) for (int j = 0; j < 6; j++) { ang.th[i][j] = gen_angle(r, dummy); ang.de[i][j] = gen_angle(r, dummy); }
    int mode = r.pick(4);
    if (mode == 0) { int i = r.pick(d - 1), j = i + 1 + r.pick(d - 1 - i); for (int p = 0; p < 6; p++) for (int q = 0; q < 6; q++) if (!(p == i && q == j)) ang.th[p][q] = 0; }  // a single plane
    if (mode == 1) for (int p = 0; p < 6; p++) for (int q = 0; q < 6; q++) ang.de[p][q] = 0;  // real mixing
    c.count(vh::fmt("dim.%d", d)); c.count(vh::fmt("cls.%s", cls_name[ac])); c.count(vh::fmt("mode.%d", mode));
    if (nontrivial_vec(a, ac)) c.nontrivial(vh::fnv_d(a.data(), a.size(), vh::fnv_d(&ang.th[0][0], 36)));
    std::string what = vh::fmt("d=%d A[%s]=%s mode=%d theta01=%.17g delta01=%.17g", d, cls_name[ac], vh::vecstr(a).c_str(), mode, ang.th[0][1], ang.de[0][1]);
    c.desc(what);
    // a random plane with random angles
    { int i = r.pick(d - 1), j = i + 1 + r.pick(d - 1 - i); int cl; double th = gen_angle(r, cl), de = gen_angle(r, cl); plane_case(c, d, i, j, th, de, a, cls_name[ac]); c.desc(what); }

    squids::Const k;
    fill_const(k, ang);
    ref::Mat U = mixing(d, ang), MA = M(d, a);
    int nrot = d * (d - 1) / 2;
    double tol = K * EPS * d * ma * nrot;
    // mixing matrix: value and unitarity
    auto Ug = k.GetTransformationMatrix(d);
    ref::Mat UL = from_gsl(Ug.get());
    c.eval(2);
    double eu = (double)ref::maxabs(UL - U), uni = (double)ref::maxabs(ref::dag(UL) * UL - ref::Mat::identity(d));
    c.worst("mixing.err_over_eps", eu / EPS); c.worst("mixing.unitarity_over_eps", uni / EPS);
    if (!(eu <= K * EPS * nrot)) c.violation(vh::fmt("C06:mixing:d%d:wrong-matrix", d), what + vh::fmt(": off by %.3g", eu));
    if (!(uni <= K * EPS * d * nrot)) c.violation(vh::fmt("C06:mixing:d%d:not-unitary", d), what + vh::fmt(": |U^dag U - 1| = %.3g", uni));
    // to / from the rotated basis
    SU_vector B1(make(a)); B1.RotateToB1(k);
    SU_vector B0(make(a)); B0.RotateToB0(k);
    cmp(c, vh::fmt("C06:RotateToB1:d%d:wrong-value", d), B1, ref::dag(U) * MA * U, tol, what);
    cmp(c, vh::fmt("C06:RotateToB0:d%d:wrong-value", d), B0, U * MA * ref::dag(U), tol, what);
    { SU_vector back(B1); back.RotateToB0(k); cmp(c, vh::fmt("C06:B0-after-B1:d%d:not-identity", d), back, MA, 2 * tol, what); }
    // matrix entry points, with the library's own U
    {
      ref::Mat ULr = UL;
      double tolm = K * EPS * d * d * ma;
      SU_vector A = make(a);
      cmp(c, vh::fmt("C06:Rotate(U):d%d:wrong-value", d), A.Rotate(Ug.get()), ref::dag(ULr) * MA * ULr, tolm, what);
      cmp(c, vh::fmt("C06:UTransform(U):d%d:wrong-value", d), A.UTransform(Ug.get()), ref::dag(ULr) * MA * ULr, tolm, what);
      cmp(c, vh::fmt("C06:UDaggerTransform(U):d%d:wrong-value", d), A.UDaggerTransform(Ug.get()), ULr * MA * ref::dag(ULr), tolm, what);
      // agreement between the entry points themselves
      SU_vector r1 = A.Rotate(Ug.get()), r2 = A.UTransform(Ug.get()), r3 = A.UDaggerTransform(Ug.get());
      c.eval(3);
      for (int q = 0; q < d * d; q++) {
        if (!(std::fabs(r1[q] - B1[q]) <= tol + tolm)) { c.violation(vh::fmt("C06:Rotate(U)-vs-RotateToB1:d%d", d), what + vh::fmt(" component %d: %.17g vs %.17g", q, r1[q], B1[q])); break; }
        if (!(std::fabs(r2[q] - B1[q]) <= tol + tolm)) { c.violation(vh::fmt("C06:UTransform(U)-vs-RotateToB1:d%d", d), what + vh::fmt(" component %d: %.17g vs %.17g", q, r2[q], B1[q])); break; }
        if (!(std::fabs(r3[q] - B0[q]) <= tol + tolm)) { c.violation(vh::fmt("C06:UDaggerTransform(U)-vs-RotateToB0:d%d", d), what + vh::fmt(" component %d: %.17g vs %.17g", q, r3[q], B0[q])); break; }
      }
      if (A.GetComponents() != a) c.violation("C06:matrix-entry:operand-modified", what);
      if (!(from_gsl(Ug.get()).a == UL.a)) c.violation("C06:matrix-entry:matrix-modified", what);
    }
    // arbitrary unitary matrices, not produced by Const
    {
      ref::Mat V = random_unitary(r, d);
      GslMat Vg(V);
      ref::Mat Vr = rounded(V);
      double tolm = K * EPS * d * d * ma;
      SU_vector A = make(a);
      cmp(c, vh::fmt("C06:Rotate(V):d%d:wrong-value", d), A.Rotate(Vg.p), ref::dag(Vr) * MA * Vr, tolm, what + " [Haar unitary]");
      cmp(c, vh::fmt("C06:UTransform(V):d%d:wrong-value", d), A.UTransform(Vg.p), ref::dag(Vr) * MA * Vr, tolm, what + " [Haar unitary]");
      cmp(c, vh::fmt("C06:UDaggerTransform(V):d%d:wrong-value", d), A.UDaggerTransform(Vg.p), Vr * MA * ref::dag(Vr), tolm, what + " [Haar unitary]");
      c.count("haar_unitaries");
    }
    // scalar products and identity component
    {
      SU_vector A = make(a), B = make(b);
      SU_vector A1(A), Bb1(B); A1.RotateToB1(k); Bb1.RotateToB1(k);
      double mag = 2.0 * d * d * ma * maxabs(b) * nrot;
      double s0 = A * B, s1 = A1 * Bb1;
      c.eval(2);
      c.worst("scalarproduct.drift_over_epsmag", mag > 0 ? std::fabs(s0 - s1) / (EPS * mag) : 0);
      if (!(std::fabs(s0 - s1) <= K * EPS * mag)) c.violation(vh::fmt("C06:RotateToB1:d%d:scalar-product-not-preserved", d), what + vh::fmt(" before %.17g after %.17g", s0, s1));
      if (!(std::fabs(A1[0] - a[0]) <= tol)) c.violation(vh::fmt("C06:RotateToB1:d%d:identity-component-changed", d), what + vh::fmt(" %.17g -> %.17g", a[0], A1[0]));
    }
    // WeightedRotation: the two overloads against each other and against W^dag Y V A V^dag Y W
    {
      Angles angW;
      for (int i = 0; i < 6; i++) for (int j = 0; j < 6; j++) { angW.th[i][j] = gen_angle(r, dummy); angW.de[i][j] = gen_angle(r, dummy); }
      squids::Const kw; fill_const(kw, angW);
      bool ydiag = r.coin(0.7);
      Vec y = gen_vec(r, d, ydiag ? DIAGONAL : DENSE);
      SU_vector Y = make(y);
      ref::Mat MY = M(d, y), Wm = mixing(d, angW);
      auto Vg = k.GetTransformationMatrix(d);
      auto Wg = kw.GetTransformationMatrix(d);
      SU_vector X1 = make(a), X2 = make(a);
      X1.WeightedRotation(k, Y, kw);
      X2.WeightedRotation(Vg.get(), Y, Wg.get());
      double my = d * maxabs(y);
      double tw = K * EPS * d * ma * (1 + my * my) * (2 * nrot + 8);
      cmp(c, vh::fmt("C06:WeightedRotation(Const):d%d:wrong-value", d), X1, ref::dag(Wm) * MY * U * MA * ref::dag(U) * MY * Wm, tw, what + (ydiag ? " [Y diagonal]" : " [Y dense]"));
      cmp(c, vh::fmt("C06:WeightedRotation(matrix):d%d:wrong-value", d), X2, ref::dag(Wm) * MY * U * MA * ref::dag(U) * MY * Wm, tw, what + (ydiag ? " [Y diagonal]" : " [Y dense]"));
      c.eval();
      for (int q = 0; q < d * d; q++) if (!(std::fabs(X1[q] - X2[q]) <= 2 * tw)) { c.violation(vh::fmt("C06:WeightedRotation:d%d:overloads-disagree", d), what + vh::fmt(" component %d: %.17g vs %.17g", q, X1[q], X2[q])); break; }
      if (Y.GetComponents() != y) c.violation("C06:WeightedRotation:Y-modified", what);
      c.count("weighted_rotations");
      // every entry point on a vector that lives in user-supplied storage (the solver's state vectors do): the same bits
      // as for a vector that owns its components, and the vector keeps using exactly that buffer
      {
        int pi = r.pick(d - 1), pj = pi + 1 + r.pick(d - 1 - pi); int cl; double th = gen_angle(r, cl), de = gen_angle(r, cl);
        SU_vector A = make(a);
        auto same = [&](const char* name, const SU_vector& got, const SU_vector& want) {
          c.eval();
          if (!same_bits(got, want)) c.violation(vh::fmt("C06:%s:d%d:differs-for-a-vector-on-user-storage", name, d), what);
        };
        try {
          ExtVec E(a, d);
          same("Rotate(i,j,theta,delta)", E.v.Rotate(pi, pj, th, de), A.Rotate(pi, pj, th, de));
          same("Rotate(U)", E.v.Rotate(Vg.get()), A.Rotate(Vg.get()));
          same("UTransform(U)", E.v.UTransform(Vg.get()), A.UTransform(Vg.get()));
          same("UDaggerTransform(U)", E.v.UDaggerTransform(Vg.get()), A.UDaggerTransform(Vg.get()));
          if (!E.bound() || E.image() != a) c.violation("C06:user-storage-operand-modified-or-rebound", what);
          { ExtVec E1(a, d); E1.v.RotateToB1(k); same("RotateToB1", E1.v, B1); if (!E1.bound()) c.violation("C06:user-storage-operand-modified-or-rebound", what + " [RotateToB1]"); }
          { ExtVec E0(a, d); E0.v.RotateToB0(k); same("RotateToB0", E0.v, B0); if (!E0.bound()) c.violation("C06:user-storage-operand-modified-or-rebound", what + " [RotateToB0]"); }
          { ExtVec E2(a, d); E2.v.WeightedRotation(k, Y, kw); same("WeightedRotation(Const)", E2.v, X1); if (!E2.bound()) c.violation("C06:user-storage-operand-modified-or-rebound", what + " [WeightedRotation(Const)]"); }
          { ExtVec E3(a, d); E3.v.WeightedRotation(Vg.get(), Y, Wg.get()); same("WeightedRotation(matrix)", E3.v, X2); if (!E3.bound()) c.violation("C06:user-storage-operand-modified-or-rebound", what + " [WeightedRotation(matrix)]"); }
          { ExtVec EY(y, d); SU_vector X3 = make(a); X3.WeightedRotation(k, EY.v, kw); same("WeightedRotation(Const, weight on user storage)", X3, X1); }
        } catch (std::exception& e) { c.violation(vh::fmt("C06:d%d:exception-for-a-vector-on-user-storage", d), what + ": " + e.what()); }
        c.count("user_storage_operands");
      }
      // the weight is passed by reference and may be the rotated vector itself
      if (r.coin(0.3)) {
        SU_vector Z1 = make(a), Z2 = make(a);
        Z1.WeightedRotation(k, Z1, kw);
        Z2.WeightedRotation(Vg.get(), Z2, Wg.get());
        double mz = d * ma;
        double tz = K * EPS * d * ma * (1 + mz * mz) * (2 * nrot + 8);
        ref::Mat wantz = ref::dag(Wm) * MA * U * MA * ref::dag(U) * MA * Wm;
        cmp(c, vh::fmt("C06:WeightedRotation(Const):d%d:wrong-value-when-weight-is-the-target", d), Z1, wantz, tz, what + " [Y is the target itself]");
        cmp(c, vh::fmt("C06:WeightedRotation(matrix):d%d:wrong-value-when-weight-is-the-target", d), Z2, wantz, tz, what + " [Y is the target itself]");
        c.count("weighted_rotations_aliased");
      }
    }
    if (idx - part1 < 5 && idx > part1) c.sample(what.substr(0, 400));
  });
}
