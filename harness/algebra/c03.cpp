// C03 - time evolution by a diagonal operator is exact conjugation and forms a group
#include "alg.h"
using namespace alg;

namespace {
const double K = 64;

bool same_bits_su(const SU_vector& x, const SU_vector& y) { if (x.Dim() != y.Dim()) return false; for (unsigned i = 0; i < x.Size(); i++) if (!(x[i] == y[i])) return false; return true; }
double gen_t(Rng& r, int& tcls) {
  tcls = r.pick(7);
  switch (tcls) {
    case 0: return 0.0;
    case 1: return r.sign() * r.logu(1e-12, 1e-6);
    case 2: return r.normal();
    case 3: return r.sign() * r.logu(1, 100);
    case 4: return r.sign() * r.logu(1e5, 1e7);
    case 5: return r.sign() * r.logu(1e11, 1e13);
    default: return (double)r.range(-5, 5);
  }
}
// U A U^dagger with U = diag(exp(i h_k t)), h_k the diagonal of M(H)
ref::Mat evolved(const ref::Mat& MA, const std::vector<ref::real>& lv, double t) {
  int d = MA.n;
  ref::Mat R(d);
  for (int i = 0; i < d; i++)
    for (int j = 0; j < d; j++) {
      ref::real ph = (lv[i] - lv[j]) * (ref::real)t;
      R(i, j) = MA(i, j) * ref::cx(std::cos(ph), std::sin(ph));
    }
  return R;
}
}  // namespace

void run_C03(vh::Ctx& c) {
  long N = c.n(40000, 1000000);
  vh::run_cases(c, 3, N, [&](long idx, Rng& r) {
    int d = 2 + (int)(idx % 5), n = d * d;
    int hc = r.pick(NH), ac = pick_cls(r), tc;
    Vec h = gen_H(r, d, hc);
    Vec a = gen_vec(r, d, ac, 100), b = gen_vec(r, d, DENSE);
    double t = gen_t(r, tc), t2 = r.coin(0.3) ? -t : gen_t(r, tc);
    c.desc(vh::fmt("d=%d H[%s]=%s A[%s]=%s t=%.17g t2=%.17g", d, hname[hc], vh::vecstr(h).c_str(), cls_name[ac], vh::vecstr(a).c_str(), t, t2));
    c.count(std::string("H.") + hname[hc]);
    c.count(vh::fmt("dim.%d", d));
    c.count(vh::fmt("tclass.%d", tc));
    if (nontrivial_vec(a, ac)) c.nontrivial(vh::fnv_d(a.data(), n, vh::fnv_d(h.data(), n, vh::fnv_d(&t, 1))));
    SU_vector H = make(h), A = make(a), B = make(b);
    ref::Mat MA = M(d, a);
    auto lv = levels_traceless(d, h);
    double W = Wscale(d, h), ma = maxabs(a);
    auto tol = [&](double tt) { return K * EPS * (1 + W * std::fabs(tt)) * ma; };
    bool vacuous = K * EPS * W * std::fabs(t) > 0.05;
    if (vacuous) c.count("vacuous_phase_resolution");

    // direct form against the definition
    SU_vector E = A.Evolve(H, t);
    c.eval();
    if ((int)E.Dim() != d) { c.violation("C03:evolve:wrong-dimension", c.cur_desc); return; }
    if (!vacuous) {
      int w = -1;
      double e = comp_err(E, evolved(MA, lv, t), &w);
      c.worst("direct.err_over_tol", ma > 0 ? e / tol(t) : 0);
      if (!(e <= tol(t))) c.violation(vh::fmt("C03:evolve:d%d:wrong-value", d), vh::fmt("component %d off by %.3g (tolerance %.3g)", w, e, tol(t)));
    }
    // identity and diagonal components never change, whatever t
    if (E[0] != a[0]) c.violation(vh::fmt("C03:evolve:d%d:identity-component-changed", d), vh::fmt("%.17g -> %.17g", a[0], E[0]));
    for (int l = 1; l < d; l++) if (E[d * l + l] != a[d * l + l]) { c.violation(vh::fmt("C03:evolve:d%d:diagonal-component-changed", d), vh::fmt("component %d: %.17g -> %.17g", d * l + l, a[d * l + l], E[d * l + l])); break; }
    if (H.GetComponents() != h || A.GetComponents() != a) c.violation("C03:evolve:operand-modified", "H or A changed");
    // the operator may be the evolved vector itself: a diagonal operator commutes with itself
    {
      SU_vector HH = make(h);
      SU_vector R = HH.Evolve(HH, t);
      c.eval();
      if (R.GetComponents() != h) c.violation(vh::fmt("C03:evolve:d%d:operator-evolved-by-itself-changed", d), "H.Evolve(H,t) != H");
    }
    // t = 0 is the identity (every phase is exactly 0)
    {
      SU_vector Z = A.Evolve(H, 0.0);
      c.eval();
      if (Z.GetComponents() != a) c.violation(vh::fmt("C03:evolve:d%d:t0-not-identity", d), "Evolve(H,0) changed the vector");
    }
    // two-step form: table sized exactly GetEvolveBufferSize() on the heap (ASan watches the end)
    size_t bs = H.GetEvolveBufferSize();
    if (bs != (size_t)d * (d - 1)) c.violation("C03:buffer-size", vh::fmt("GetEvolveBufferSize()=%zu for d=%d", bs, d));
    double* buf = (double*)malloc(sizeof(double) * bs);
    for (size_t i = 0; i < bs; i++) buf[i] = NAN;
    H.PrepareEvolve(buf, t);
    for (size_t i = 0; i < bs; i++) if (!std::isfinite(buf[i])) { c.violation(vh::fmt("C03:prepare:d%d:entry-not-written-or-nonfinite", d), vh::fmt("entry %zu = %g", i, buf[i])); break; }
    SU_vector F = A.Evolve(buf);
    SU_vector FB = B.Evolve(buf);  // "any number of vectors"
    c.eval(2);
    if (!vacuous) {
      for (int k = 0; k < n; k++) if (!(std::fabs(F[k] - E[k]) <= tol(t))) { c.violation(vh::fmt("C03:twostep:d%d:differs-from-direct", d), vh::fmt("component %d: two-step %.17g direct %.17g", k, F[k], E[k])); break; }
      SU_vector EB = B.Evolve(H, t);
      double tb = K * EPS * (1 + W * std::fabs(t)) * maxabs(b);
      for (int k = 0; k < n; k++) if (!(std::fabs(FB[k] - EB[k]) <= tb)) { c.violation(vh::fmt("C03:twostep:d%d:second-vector-differs", d), vh::fmt("component %d: two-step %.17g direct %.17g", k, FB[k], EB[k])); break; }
      // scalar products between vectors evolved by the same (H,t) are preserved
      double sp0 = A * B, sp1 = E * EB;
      double mag = 2.0 * d * d * ma * maxabs(b) * (1 + W * std::fabs(t));
      c.worst("scalarproduct.drift_over_epsmag", mag > 0 ? std::fabs(sp0 - sp1) / (EPS * mag) : 0);
      if (!(std::fabs(sp0 - sp1) <= K * EPS * mag)) c.violation(vh::fmt("C03:evolve:d%d:scalar-product-not-preserved", d), vh::fmt("before %.17g after %.17g", sp0, sp1));
    }
    // evolving a vector in place (the result stored back into the evolved vector), both forms
    {
      SU_vector X1(A), X2(A);
      X1 = X1.Evolve(H, t);
      X2 = X2.Evolve(buf);
      c.eval(2); c.count("inplace_forms", 2);
      if (!same_bits_su(X1, E)) c.violation(vh::fmt("C03:evolve:d%d:in-place-differs", d), "X = X.Evolve(H,t) differs from Y = X.Evolve(H,t)");
      if (!same_bits_su(X2, F)) c.violation(vh::fmt("C03:twostep:d%d:in-place-differs", d), "X = X.Evolve(table) differs from Y = X.Evolve(table)");
    }
    // state and/or operator given as unevaluated expressions (every Evolve member of the expression type), and the
    // state on user-supplied storage: the same bits as with evaluated, owning vectors
    {
      Vec h2 = gen_H(r, d, r.pick(NH));
      SU_vector H2 = make(h2), S = A + B, HS = H + H2;
      SU_vector want = S.Evolve(HS, t);
      c.eval(4); c.count("expression_operand_forms", 4);
      if (!same_bits_su((A + B).Evolve(HS, t), want)) c.violation(vh::fmt("C03:evolve:d%d:expression-as-state-differs", d), "(A+B).Evolve(H,t) differs from S.Evolve(H,t) with S=A+B");
      if (!same_bits_su(S.Evolve(H + H2, t), want)) c.violation(vh::fmt("C03:evolve:d%d:expression-as-operator-differs", d), "S.Evolve(H1+H2,t) differs from S.Evolve(H,t) with H=H1+H2");
      if (!same_bits_su((A + B).Evolve(H + H2, t), want)) c.violation(vh::fmt("C03:evolve:d%d:expressions-as-state-and-operator-differ", d), "(A+B).Evolve(H1+H2,t) differs from S.Evolve(H,t)");
      if (!same_bits_su((A - B).Evolve(H - H2, t), SU_vector(A - B).Evolve(SU_vector(H - H2), t))) c.violation(vh::fmt("C03:evolve:d%d:expressions-as-state-and-operator-differ", d), "(A-B).Evolve(H1-H2,t)");
      ExtVec EA(a, d), EH(h, d);
      c.eval(3); c.count("user_storage_forms", 3);
      if (!same_bits_su(EA.v.Evolve(H, t), E)) c.violation(vh::fmt("C03:evolve:d%d:differs-for-a-state-on-user-storage", d), "direct form");
      if (!same_bits_su(A.Evolve(EH.v, t), E)) c.violation(vh::fmt("C03:evolve:d%d:differs-for-an-operator-on-user-storage", d), "direct form");
      if (!same_bits_su(EA.v.Evolve(buf), F)) c.violation(vh::fmt("C03:twostep:d%d:differs-for-a-state-on-user-storage", d), "two-step form");
      { ExtVec X(a, d); X.v = X.v.Evolve(H, t); if (!same_bits_su(X.v, E) || !X.bound()) c.violation(vh::fmt("C03:evolve:d%d:in-place-differs", d), "X = X.Evolve(H,t) on user storage"); }
      if (!EA.bound() || EA.image() != a || EH.image() != h) c.violation("C03:operand-modified", "vector on user storage changed or rebound");
    }
    free(buf);
    // group law
    {
      SU_vector G1 = SU_vector(A.Evolve(H, t)).Evolve(H, t2);
      SU_vector G2 = A.Evolve(H, t + t2);
      c.eval();
      double tg = K * EPS * (1 + W * (std::fabs(t) + std::fabs(t2) + std::fabs(t + t2))) * ma;
      if (tg < 0.05 * ma || ma == 0)
        for (int k = 0; k < n; k++) if (!(std::fabs(G1[k] - G2[k]) <= tg)) { c.violation(vh::fmt("C03:evolve:d%d:group-law", d), vh::fmt("component %d: t1 then t2 gives %.17g, t1+t2 gives %.17g (tol %.3g)", k, G1[k], G2[k], tg)); break; }
    }
    if (idx < 4) c.sample(c.cur_desc.substr(0, 400));
  });
}
