// C12 - the eigen-decomposition returned for a vector is valid for every Hermitian input
#include "alg.h"
#include <gsl/gsl_vector.h>
#include <SQuIDS/detail/VerifHooks.h>
using namespace alg;

namespace {
// H6: which solver answered (evidence only)
long ev_closed_form_attempted = 0, ev_general_solver[7] = {0, 0, 0, 0, 0, 0, 0};
void on_event(int kind, double a, double b) {
  if (kind != squids::verif::EV_EIGEN_SOLVER) return;
  if (a == 0) ev_closed_form_attempted++; else if (b >= 0 && b <= 6) ev_general_solver[(int)b]++;
}
const double TOL = 1e-9;  // "a valid decomposition": sound solvers give <=5e-14, the fragile closed form 1e-4..1

enum Mod { M_NONE, M_ZERO_OFFDIAG, M_SCALE_OFFDIAG, M_GAP, M_SCALE_ALL, M_SINGLE_GEN, M_PROJECTOR, M_DIAG_ONLY, M_IDENT, M_TWO_GEN, NMOD };
const char* modname[] = {"class", "one-offdiagonal-entry-zeroed", "offdiagonal-scaled-down", "prescribed-gaps", "whole-matrix-scaled", "single-generator", "projector", "diagonal", "identity-multiple", "two-generators"};

void judge(vh::Ctx& c, int d, const Vec& a, bool order, const char* what) {
  SU_vector A = make(a);
  ref::Mat MA = M(d, a);
  auto es = A.GetEigenSystem(order);
  c.eval();
  c.count(vh::fmt("dim.%d", d));
  c.count(order ? "ordered" : "unordered");
  gsl_vector* L = es.first.get();
  gsl_matrix_complex* Vg = es.second.get();
  std::string ctx = vh::fmt("d=%d order=%d [%s] components=%s", d, (int)order, what, vh::vecstr(a).c_str());
  if (!L || !Vg || (int)L->size != d || (int)Vg->size1 != d || (int)Vg->size2 != d) { c.violation("C12:shape", ctx); return; }
  ref::Mat V = from_gsl(Vg);
  std::vector<double> w(d);
  bool fin = ref::finite(V);
  for (int i = 0; i < d; i++) { w[i] = gsl_vector_get(L, i); if (!std::isfinite(w[i])) fin = false; }
  std::string key = vh::fmt("C12:d%d:", d);
  if (!fin) { c.violation(key + "non-finite", ctx + " eigenvalues=" + vh::vecstr(w)); return; }
  double scale = (double)ref::maxabs(MA);
  ref::Mat R = MA * V;
  for (int i = 0; i < d; i++) for (int j = 0; j < d; j++) R(i, j) -= V(i, j) * (ref::real)w[j];
  double res = (double)ref::maxabs(R);
  double uni = (double)ref::maxabs(ref::dag(V) * V - ref::Mat::identity(d));
  c.worst(vh::fmt("residual_over_scale.d%d", d), scale > 0 ? res / scale : res);
  c.worst(vh::fmt("unitarity_defect.d%d", d), uni);
  if (!(res <= TOL * scale + 1e-300)) c.violation(key + "residual", ctx + vh::fmt(" |MV-VL|=%.3g |M|=%.3g eigenvalues=%s", res, scale, vh::vecstr(w).c_str()));
  if (!(uni <= TOL)) c.violation(key + "not-unitary", ctx + vh::fmt(" |V^dag V-1|=%.3g", uni));
  if (order) for (int i = 0; i + 1 < d; i++) if (!(w[i] <= w[i + 1])) { c.violation(key + "not-ascending", ctx + " eigenvalues=" + vh::vecstr(w)); break; }
  // eigenvalues are the right multiset: trace and sum of squares (independent of V)
  {
    ref::real tr = 0, tr2 = 0, ws = 0, ws2 = 0;
    for (int i = 0; i < d; i++) { tr += MA(i, i).real(); ws += w[i]; ws2 += (ref::real)w[i] * w[i]; for (int j = 0; j < d; j++) tr2 += std::norm(MA(i, j)); }
    if (!(std::fabs((double)(tr - ws)) <= TOL * d * scale + 1e-300)) c.violation(key + "trace-mismatch", ctx);
    if (!(std::fabs((double)(tr2 - ws2)) <= TOL * d * d * scale * scale + 1e-300)) c.violation(key + "square-sum-mismatch", ctx);
  }
  if (A.GetComponents() != a) c.violation("C12:operand-modified", ctx);
  // the same vector on user-supplied storage: the same decomposition
  try {
    ExtVec E(a, d);
    auto es2 = E.v.GetEigenSystem(order);
    c.eval();
    bool same = es2.first && es2.second && (int)es2.first->size == d;
    for (int i = 0; same && i < d; i++) { if (!(gsl_vector_get(es2.first.get(), i) == w[i])) same = false; }
    if (same && !(from_gsl(es2.second.get()).a == V.a)) same = false;
    if (!same) c.violation(key + "differs-for-a-vector-on-user-storage", ctx);
    if (!E.bound() || E.image() != a) c.violation("C12:operand-modified", ctx + " [user storage]");
  } catch (std::exception& e) { c.violation(key + "exception-for-a-vector-on-user-storage", ctx + ": " + e.what()); }
}
}  // namespace

void run_C12(vh::Ctx& c) {
  squids::verif::event_hook() = on_event;
  // part 1 (exhaustive): every single generator, every projector, identity, for every d
  struct Fixed { int d; Vec a; std::string what; };
  std::vector<Fixed> fixed;
  for (int d = 2; d <= 6; d++) {
    for (int k = 0; k < d * d; k++) { Vec v = zero_vec(d); v[k] = 1; fixed.push_back({d, v, vh::fmt("generator %d", k)}); }
    for (int i = 0; i < d; i++) { ref::Mat p(d); p(i, i) = 1; fixed.push_back({d, ref::to_components(p), vh::fmt("projector %d", i)}); }
    fixed.push_back({d, zero_vec(d), "zero matrix"});
    for (int k = 1; k < d; k++) { ref::Mat p(d); for (int i = 0; i < k; i++) p(i, i) = 1; fixed.push_back({d, ref::to_components(p), vh::fmt("rank-%d projector", k)}); }
  }
  long F = (long)fixed.size();
  long N = c.n(30000, 800000);
  vh::run_cases(c, 12, F + N, [&](long idx, Rng& r) {
    if (idx < F) {
      const Fixed& f = fixed[idx];
      c.desc(vh::fmt("d=%d %s", f.d, f.what.c_str()));
      c.count("fixed.structured");
      c.nontrivial(vh::fnv_str(vh::fmt("fx/%d/%s", f.d, f.what.c_str())));
      judge(c, f.d, f.a, true, f.what.c_str());
      judge(c, f.d, f.a, false, f.what.c_str());
      return;
    }
    // dimension 3 has its own closed-form solver: give it half of the budget
    int d = (idx % 2) ? 3 : 2 + (int)((idx / 2) % 5);
    int mod = r.pick(NMOD), cls = pick_cls(r);
    Vec a = gen_vec(r, d, cls, 100);
    ref::Mat MA = M(d, a);
    switch (mod) {
      case M_ZERO_OFFDIAG: { a = gen_vec(r, d, DENSE); cls = DENSE; MA = M(d, a); int i = r.pick(d - 1), j = i + 1 + r.pick(d - 1 - i); MA(i, j) = 0; MA(j, i) = 0; a = ref::to_components(MA); } break;
      case M_SCALE_OFFDIAG: { a = gen_vec(r, d, DENSE); cls = DENSE; double s = std::pow(10.0, -r.range(2, 14)); for (int k = 0; k < d * d; k++) { int i = k / d, j = k % d; if (i != j) a[k] *= s; } } break;
      case M_GAP: {
        std::vector<ref::real> w(d); ref::real e = r.normal();
        for (int i = 0; i < d; i++) { w[i] = e; e += (r.coin(0.5) ? std::pow(10.0, -r.range(2, 14)) : r.uni(0.1, 2)); }
        ref::Mat u = random_unitary(r, d); a = ref::to_components(u * diag_mat(w) * ref::dag(u)); cls = REPEATED;
      } break;
      case M_SCALE_ALL: { a = gen_vec(r, d, r.coin() ? DENSE : REPEATED); double s = std::pow(10.0, r.sign() * r.range(20, 100)); for (auto& x : a) x *= s; } break;
      case M_SINGLE_GEN: { a = zero_vec(d); a[r.pick(d * d)] = r.coin() ? 1.0 : r.normal() * std::pow(10.0, r.range(-5, 5)); } break;
      case M_PROJECTOR: { std::vector<ref::real> w(d); for (auto& x : w) x = r.coin() ? 1 : 0; a = ref::to_components(diag_mat(w)); if (r.coin(0.3)) for (auto& x : a) x *= r.normal(); } break;
      case M_DIAG_ONLY: a = gen_vec(r, d, DIAGONAL); break;
      case M_IDENT: a = gen_vec(r, d, IDENT); break;
      case M_TWO_GEN: { a = zero_vec(d); a[r.pick(d * d)] = r.normal(); a[r.pick(d * d)] = r.normal(); } break;
      default: break;
    }
    bool order = r.coin(0.7);
    std::string what = std::string(modname[mod]) + "/" + cls_name[cls];
    c.desc(vh::fmt("d=%d order=%d [%s] components=%s", d, (int)order, what.c_str(), vh::vecstr(a).c_str()));
    c.count(std::string("mod.") + modname[mod]);
    c.nontrivial(vh::fnv_d(a.data(), a.size(), d));
    judge(c, d, a, order, what.c_str());
    if (idx - F < 4) c.sample(c.cur_desc.substr(0, 400));
  });
  c.count("solver.closed_form_attempted(d=3)", ev_closed_form_attempted);
  c.count("solver.closed_form_accepted(d=3)", ev_closed_form_attempted - ev_general_solver[3]);
  c.count("solver.general_solver_after_rejected_closed_form(d=3)", ev_general_solver[3]);
  c.count("solver.general_solver(d!=3)", ev_general_solver[2] + ev_general_solver[4] + ev_general_solver[5] + ev_general_solver[6]);
}
