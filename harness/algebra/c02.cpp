// C02 - commutator, anticommutator and scalar product equal their matrix definitions
#include "alg.h"
using namespace alg;

namespace {
const double K = 256;
const ref::cx I_(0, 1);

struct Pair { int d; Vec a, b; const char* ca; const char* cb; };

void judge_pair(vh::Ctx& c, const Pair& p, bool derived, Rng* r) {
  int d = p.d, n = d * d;
  SU_vector A = make(p.a), B = make(p.b);
  ref::Mat MA = M(d, p.a), MB = M(d, p.b);
  ref::Mat AB = MA * MB, BA = MB * MA;
  double ma = maxabs(p.a), mb = maxabs(p.b);
  double S = d * ma * mb;
  auto ctx = [&]() { return vh::fmt("d=%d a[%s]=%s b[%s]=%s", d, p.ca, vh::vecstr(p.a).c_str(), p.cb, vh::vecstr(p.b).c_str()); };

  SU_vector C = squids::iCommutator(A, B);
  SU_vector AC = squids::ACommutator(A, B);
  c.eval(3);
  int w = -1;
  double e = comp_err(C, I_ * (AB - BA), &w);
  c.worst("commutator.err_over_epsS", S > 0 ? e / (EPS * S) : (e > 0 ? 1e300 : 0));
  if (!(e <= K * EPS * S)) c.violation(vh::fmt("C02:commutator:d%d:wrong-value", d), vh::fmt("component %d off by %.3g (scale %.3g); ", w, e, S) + ctx());
  if (C[0] != 0.0) c.violation(vh::fmt("C02:commutator:d%d:identity-component-nonzero", d), vh::fmt("identity component = %.17g; ", C[0]) + ctx());
  e = comp_err(AC, AB + BA, &w);
  c.worst("anticommutator.err_over_epsS", S > 0 ? e / (EPS * S) : (e > 0 ? 1e300 : 0));
  if (!(e <= K * EPS * S)) c.violation(vh::fmt("C02:anticommutator:d%d:wrong-value", d), vh::fmt("component %d off by %.3g (scale %.3g); ", w, e, S) + ctx());
  // scalar product: Tr(AB) = d a0 b0 + 2 sum a_k b_k ; scale = sum of magnitudes of the terms
  {
    ref::real want = d * (ref::real)p.a[0] * p.b[0], mag = std::fabs((double)want);
    for (int k = 1; k < n; k++) { ref::real t = 2 * (ref::real)p.a[k] * p.b[k]; want += t; mag += std::fabs((double)t); }
    ref::real viaMat = ref::trace(AB).real();
    double got = A * B, got2 = squids::SUTrace<>(A, B);
    double es = (double)std::fabs(got - want);
    c.worst("trace.err_over_epsMag", mag > 0 ? es / (EPS * mag) : (es > 0 ? 1e300 : 0));
    if (!(es <= 64 * EPS * mag)) c.violation(vh::fmt("C02:trace:d%d:wrong-value", d), vh::fmt("A*B=%.17g, Tr(AB)=%.17g (via matrices %.17g); ", got, (double)want, (double)viaMat) + ctx());
    if (!(std::fabs(got2 - (double)want) <= 64 * EPS * mag)) c.violation(vh::fmt("C02:trace:d%d:SUTrace-differs", d), vh::fmt("SUTrace=%.17g, Tr(AB)=%.17g; ", got2, (double)want) + ctx());
    // the reference formula itself is cross-checked against the matrix trace
    if (std::fabs((double)(viaMat - want)) > 1e-16 * (d * d * ma * mb) + 1e-300) c.violation("C02:harness:reference-disagrees-with-itself", ctx());
    double back = B * A;
    if (!(std::fabs(back - got) <= 64 * EPS * mag)) c.violation(vh::fmt("C02:trace:d%d:not-symmetric", d), ctx());
  }
  if (A.GetComponents() != p.a || B.GetComponents() != p.b) c.violation("C02:operand-modified", ctx());
  {  // the result stored back into one of the operands
    SU_vector T1(A), T2(B), T3(A), T4(B);
    T1 = squids::iCommutator(T1, B); T2 = squids::iCommutator(A, T2);
    T3 = squids::ACommutator(T3, B); T4 = squids::ACommutator(A, T4);
    c.eval(4);
    for (int k = 0; k < n; k++) {
      if (T1[k] != C[k] || T2[k] != C[k]) { c.violation(vh::fmt("C02:commutator:d%d:stored-into-an-operand-differs", d), vh::fmt("component %d: into first operand %.17g, into second %.17g, fresh %.17g; ", k, T1[k], T2[k], C[k]) + ctx()); break; }
      if (T3[k] != AC[k] || T4[k] != AC[k]) { c.violation(vh::fmt("C02:anticommutator:d%d:stored-into-an-operand-differs", d), vh::fmt("component %d: into first operand %.17g, into second %.17g, fresh %.17g; ", k, T3[k], T4[k], AC[k]) + ctx()); break; }
    }
  }
  {  // the result stored into targets of every kind (empty, another dimension, same dimension with stale contents), with and
     // without the no-alias guarantee, from operands on user storage and from operands that are unevaluated expressions
    using squids::detail::guarantee; using squids::detail::NoAlias;
    int d2 = d == 6 ? 3 : d + 1;
    auto same = [&](const char* what, const SU_vector& got, const SU_vector& want) {
      c.eval();
      if (!same_bits(got, want)) c.violation(vh::fmt("C02:%s:d%d:differs-from-the-fresh-result", what, d), ctx());
    };
    try {
      { SU_vector T; T = squids::iCommutator(A, B); same("commutator:into-empty-target", T, C); }
      { SU_vector T(d2); T = squids::iCommutator(A, B); same("commutator:into-target-of-another-dimension", T, C); }
      { SU_vector T = make(p.b); T = squids::ACommutator(A, B); same("anticommutator:into-used-target", T, AC); }
      { SU_vector T; T = guarantee<NoAlias>(squids::iCommutator(A, B)); same("commutator:no-alias-guarantee:into-empty-target", T, C); }
      { SU_vector T(d2); T = guarantee<NoAlias>(squids::iCommutator(A, B)); same("commutator:no-alias-guarantee:into-target-of-another-dimension", T, C); }
      { SU_vector T(d2); T = guarantee<NoAlias>(squids::ACommutator(A, B)); same("anticommutator:no-alias-guarantee:into-target-of-another-dimension", T, AC); }
      { SU_vector T = make(p.b); T = guarantee<NoAlias>(squids::ACommutator(A, B)); same("anticommutator:no-alias-guarantee:into-used-target", T, AC); }
      { ExtVec EA(p.a, d), EB(p.b, d); same("commutator:operands-on-user-storage", squids::iCommutator(EA.v, EB.v), C); same("anticommutator:operands-on-user-storage", squids::ACommutator(EA.v, B), AC);
        double t1 = EA.v * EB.v, t0 = A * B; c.eval(); if (t1 != t0) c.violation(vh::fmt("C02:trace:d%d:differs-for-operands-on-user-storage", d), ctx());
        ExtVec ET(p.b, d); ET.v = squids::iCommutator(A, B); same("commutator:into-target-on-user-storage", ET.v, C); if (!ET.bound()) c.violation("C02:target-on-user-storage-rebound", ctx());
        if (EA.image() != p.a || EB.image() != p.b) c.violation("C02:operand-modified", ctx() + " [user storage]"); }
      { SU_vector Z(d);  // zero vector: A+Z and B-Z are A and B again, as unevaluated expressions
        same("commutator:expression-operands", squids::iCommutator(A + Z, B - Z), C); same("anticommutator:expression-operands", squids::ACommutator(A + Z, B), AC);
        double t2 = (A + Z) * (B - Z), t3 = (A + Z) * B, t0 = A * B; c.eval(2);
        if (t2 != t0 || t3 != t0) c.violation(vh::fmt("C02:trace:d%d:differs-for-expression-operands", d), ctx() + vh::fmt(" %.17g %.17g vs %.17g", t2, t3, t0)); }
      c.count("target_and_operand_kinds");
    } catch (std::exception& e) { c.violation(vh::fmt("C02:d%d:exception-for-a-legitimate-statement", d), ctx() + ": " + e.what()); }
  }
  {  // both operands the same object: [A,A]=0, {A,A}=2A^2, A*A=Tr(A^2)
    SU_vector CS = squids::iCommutator(A, A), AS = squids::ACommutator(A, A);
    c.eval(3);
    double Sa = d * ma * ma;
    for (int k = 0; k < n; k++) if (!(std::fabs(CS[k]) <= K * EPS * Sa)) { c.violation(vh::fmt("C02:commutator:d%d:self-commutator-nonzero", d), vh::fmt("component %d = %.3g; ", k, CS[k]) + ctx()); break; }
    double e2 = comp_err(AS, ref::real(2) * (MA * MA), &w);
    if (!(e2 <= K * EPS * Sa)) c.violation(vh::fmt("C02:anticommutator:d%d:wrong-value-for-identical-operands", d), vh::fmt("component %d off by %.3g; ", w, e2) + ctx());
    double tself = A * A, wantself = (double)ref::trace(MA * MA).real();
    if (!(std::fabs(tself - wantself) <= 64 * EPS * (std::fabs(wantself) + d * ma * ma))) c.violation(vh::fmt("C02:trace:d%d:wrong-value-for-identical-operands", d), vh::fmt("A*A=%.17g Tr(A^2)=%.17g; ", tself, wantself) + ctx());
  }
  if (!derived) return;
  // derived monitors
  c.eval(4);
  SU_vector C2 = squids::iCommutator(B, A), AC2 = squids::ACommutator(B, A);
  for (int k = 0; k < n; k++) {
    if (!(std::fabs(C[k] + C2[k]) <= K * EPS * S)) { c.violation(vh::fmt("C02:commutator:d%d:not-antisymmetric", d), vh::fmt("component %d: %.17g vs %.17g; ", k, C[k], C2[k]) + ctx()); break; }
  }
  for (int k = 0; k < n; k++) {
    if (!(std::fabs(AC[k] - AC2[k]) <= K * EPS * S)) { c.violation(vh::fmt("C02:anticommutator:d%d:not-symmetric", d), vh::fmt("component %d: %.17g vs %.17g; ", k, AC[k], AC2[k]) + ctx()); break; }
  }
  {  // Tr(A i[A,B]) = 0
    double t = A * C;
    double scale = d * d * ma * S * 2;
    c.worst("trAcomm.over_epsScale", scale > 0 ? std::fabs(t) / (EPS * scale) : 0);
    if (!(std::fabs(t) <= K * EPS * scale)) c.violation(vh::fmt("C02:commutator:d%d:trace-with-A-nonzero", d), vh::fmt("Tr(A i[A,B])=%.3g (scale %.3g); ", t, scale) + ctx());
  }
  if (r) {  // bilinearity in the first argument
    double al = r->normal(), be = r->normal();
    Vec a2 = gen_vec(*r, d, DENSE);
    for (auto& x : a2) x *= ma;
    SU_vector A2 = make(a2);
    SU_vector L = al * A + be * A2;
    double m2 = std::max(ma, maxabs(a2)) * (std::fabs(al) + std::fabs(be));
    double S2 = d * m2 * mb;
    SU_vector lhs = squids::iCommutator(L, B), rhs = al * C + be * SU_vector(squids::iCommutator(A2, B));
    SU_vector lhsA = squids::ACommutator(B, L), rhsA = al * SU_vector(squids::ACommutator(B, A)) + be * SU_vector(squids::ACommutator(B, A2));
    for (int k = 0; k < n; k++) {
      if (!(std::fabs(lhs[k] - rhs[k]) <= 2 * K * EPS * S2)) { c.violation(vh::fmt("C02:commutator:d%d:not-bilinear", d), vh::fmt("component %d: %.17g vs %.17g; ", k, lhs[k], rhs[k]) + ctx()); break; }
      if (!(std::fabs(lhsA[k] - rhsA[k]) <= 2 * K * EPS * S2)) { c.violation(vh::fmt("C02:anticommutator:d%d:not-bilinear", d), vh::fmt("component %d: %.17g vs %.17g; ", k, lhsA[k], rhsA[k]) + ctx()); break; }
    }
  }
}
}  // namespace

void run_C02(vh::Ctx& c) {
  // part 1 (exhaustive): all ordered generator pairs, every dimension: each structure constant
  long pairs = 0;
  for (int d = 2; d <= 6; d++) pairs += (long)d * d * d * d;  // 2274
  long N = c.n(30000, 1000000);
  vh::run_cases(c, 2, pairs + N, [&](long idx, Rng& r) {
    if (idx < pairs) {
      int d = 2; long off = idx;
      while (off >= (long)d * d * d * d) { off -= (long)d * d * d * d; d++; }
      int n = d * d, ia = (int)(off / n), ib = (int)(off % n);
      Pair p{d, zero_vec(d), zero_vec(d), "generator", "generator"};
      p.a[ia] = 1; p.b[ib] = 1;
      c.desc(vh::fmt("generator pair d=%d a=%d b=%d", d, ia, ib));
      c.count("pairs.generator");
      c.nontrivial(vh::fnv_str(vh::fmt("gp/%d/%d/%d", d, ia, ib)));
      judge_pair(c, p, true, nullptr);
      // same pair with a non-unit weight against a dense partner (exercises each
      // coefficient inside a full sum)
      Pair q{d, p.a, gen_vec(r, d, DENSE), "generator", "dense"};
      q.a[ia] = r.normal() * 3;
      judge_pair(c, q, false, nullptr);
      c.count("pairs.generator_dense");
      if (idx % 500 == 7) c.sample(c.cur_desc);
      return;
    }
    // part 2: value classes
    int d = 2 + (int)(idx % 5);
    int ca = pick_cls(r), cb = pick_cls(r);
    Pair p{d, gen_vec(r, d, ca, 70), gen_vec(r, d, cb, 70), cls_name[ca], cls_name[cb]};
    c.desc(vh::fmt("d=%d a[%s]=%s b[%s]=%s", d, p.ca, vh::vecstr(p.a).c_str(), p.cb, vh::vecstr(p.b).c_str()));
    c.count(vh::fmt("cls.%s", p.ca));
    c.count(vh::fmt("dim.%d", d));
    c.count("pairs.random");
    if (nontrivial_vec(p.a, ca) && nontrivial_vec(p.b, cb)) c.nontrivial(vh::fnv_d(p.b.data(), p.b.size(), vh::fnv_d(p.a.data(), p.a.size(), d)));
    judge_pair(c, p, true, &r);
    if (idx - pairs < 3) c.sample(c.cur_desc.substr(0, 400));
  });
}
