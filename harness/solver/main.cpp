// h_solver: monitors for the properties of the SQuIDS solver class (C04 C05 C10 C17)
#include "solver/problem.h"
int main(int argc, char** argv) {
  vh::Args a = vh::parse_args(argc, argv);
  vh::Ctx c(a);
  if (a.prop == "C04") run_C04(c);
  else if (a.prop == "C05") run_C05(c);
  else if (a.prop == "C10") run_C10(c);
  else if (a.prop == "C17") run_C17(c);
  else { fprintf(stderr, "h_solver: unknown property %s\n", a.prop.c_str()); return 2; }
  c.write();
  return 0;
}
