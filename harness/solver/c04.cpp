// C04 - numerical evolution solves exactly the documented kinetic equation
#include "solver/problem.h"
using namespace sv;

namespace {
const char* mask_str(int m) { static char b[8]; for (int k = 0; k < 5; k++) b[k] = (m & (1 << k)) ? "CNOGS"[k] : '-'; b[5] = 0; return b; }
}

void run_C04(vh::Ctx& c) {
  squids::verif::event_hook() = on_event;
  auto modes = step_modes();
  long N = c.n(1800, 60000);
  static const double tinis[] = {0.0, 0.5, -0.5, 1000.0};
  vh::run_cases(c, 4, N, [&](long idx, vh::Rng& r) {
    // the three discrete axes are swept systematically, the rest is random
    int mask = (int)(idx % 32);
    const StepMode& sm = modes[(idx / 32) % modes.size()];
    unsigned d = 2 + (unsigned)((idx / 7) % 5);
    unsigned nx = 1 + r.pick(5), nr = 1 + r.pick(3), ns = r.pick(4);
    // keep the expensive corners affordable
    if (idx % 23 == 5) { nx = 8 + r.pick(40); nr = 1 + r.pick(5); ns = r.pick(7); c.count("large_systems"); }   // the layout arithmetic for many nodes / matrices / scalars
    if (sm.order == 2 && nx * nr > 6) { nx = 2; nr = 2; }
    double ti = tinis[r.pick(4)];
    RhoFamily fam = (mask & OTHER) ? MANUFACTURED : COMMUTING;
    bool scal_manu = mask & OSCAL;
    Params P;
    // "to the requested tolerance": the relative and the absolute tolerance mean different things once the state is
    // not of order one, so a third of the problems live at another magnitude with the absolute tolerance far below rel*|y|
    static const double amps[] = {1e-9, 1e-6, 1e-3, 1e4};
    double amp = r.coin(0.35) ? amps[r.pick(4)] : 1.0;
    P.generate(r, nx, d, nr, ns, ti, fam, scal_manu, /*constant_rates=*/false, /*rate=*/r.uni(0.5, 2.0), amp);
    if (fam == MANUFACTURED && r.coin(0.5)) { P.kappa = r.uni(0.3, 1.5) * r.sign(); c.count("state_dependent_sources"); }
    double T = r.uni(0.3, 1.5);
    int nseg = 1 + r.pick(2);
    double tolexp = sm.order == 2 ? r.uni(7.0, 8.5) : r.uni(8.0, 11.0);
    double tol = std::pow(10.0, -tolexp);
    double atol = amp == 1.0 ? tol : tol * amp * 1e-3;
    unsigned nsteps = sm.order == 2 ? 12000 : sm.order == 4 ? 1500 : sm.order == 5 ? 800 : 250;
    std::string what = vh::fmt("nx=%u d=%u nrhos=%u nscalars=%u switches=%s stepper=%s t_ini=%g T=%.6g segments=%d rel_error=%.3g abs_error=%.3g magnitude=%g nsteps=%u family=%s",
                               nx, d, nr, ns, mask_str(mask), sm.name, ti, T, nseg, tol, atol, amp, nsteps, fam == MANUFACTURED ? "manufactured" : "commuting");
    c.desc(what);
    c.count(std::string("stepper.") + sm.name); c.count(vh::fmt("switches.%s", mask_str(mask))); c.count(vh::fmt("dim.%u", d));
    c.count(vh::fmt("magnitude.%g", amp));
    c.count(vh::fmt("nx.%u", nx)); c.count(vh::fmt("nrhos.%u", nr)); c.count(vh::fmt("nscalars.%u", ns)); c.count(vh::fmt("t_ini.%g", ti));
    c.nontrivial(vh::fnv_str(what));

    Problem p(P);
    p.set_mask(mask, r.pick(120));   // the five setters in a random order
    p.Set_GSL_step(sm.type); p.Set_AdaptiveStep(sm.adaptive);
    p.Set_rel_error(tol); p.Set_abs_error(atol); p.Set_h(1e-3 * r.uni(0.5, 2)); p.Set_NumSteps(nsteps);
    // step-size bounds that do not constrain a correct integration must not change its result
    if (sm.adaptive && r.coin(0.25)) { p.Set_h_max(r.uni(0.02, 1.0)); c.count("settings.h_max"); }
    if (sm.adaptive && r.coin(0.25)) { p.Set_h_min(1e-14); c.count("settings.h_min"); }
    // initial state
    std::vector<DM> rho0((size_t)nx * nr);
    std::vector<double> s0v((size_t)nx * ns);
    for (unsigned ix = 0; ix < nx; ix++) {
      for (unsigned ir = 0; ir < nr; ir++) { DM m = fam == MANUFACTURED ? P.rho_star(ix, ir, ti) : amp * fm::rand_herm(r, d); rho0[P.kr(ix, ir)] = m; p.set_rho(ix, ir, m); }
      for (unsigned is = 0; is < ns; is++) { double v = scal_manu ? P.s_star(ix, is, ti) : amp * r.normal(); s0v[P.ks(ix, is)] = v; p.scal(ix, is) = v; }
    }
    // the state array as a whole, to detect writes outside the modelled entries
    double t_now = ti;
    for (int seg = 0; seg < nseg; seg++) {
      double dt = T / nseg;
      bool numerics = mask != 0;
      p.mon.arm(&c, "C04", t_now, t_now + dt, mask, numerics, nx, nr, ns, sm.adaptive ? 1 : nsteps);
      try { p.Evolve(dt); }
      catch (std::exception& e) { c.eval(); c.violation(vh::fmt("C04:evolve-threw:%s", sm.name), what + ": " + e.what()); return; }
      p.mon.finish();
      c.eval();
      c.count("derivative_evaluations", p.mon.evaluations);
      c.count("term_calls", p.mon.term_calls);
      t_now += dt;
      // clock
      double terr = std::fabs(p.Get_t() - t_now);
      double tslack = 4 * EPS * (std::fabs(ti) + T) * (1 + (sm.adaptive ? 1 : nsteps)) * (seg + 1);
      if (!(terr <= tslack)) c.violation("C04:clock", what + vh::fmt(": Get_t()=%.17g expected %.17g", p.Get_t(), t_now));
    }
    // compare with the exact solution
    double ynorm = 0, err = 0; unsigned wix = 0, wir = 0; bool isrho = true;
    for (unsigned ix = 0; ix < nx; ix++) {
      for (unsigned ir = 0; ir < nr; ir++) {
        DM want = fam == MANUFACTURED ? P.rho_star(ix, ir, t_now) : P.comm_propagate(ix, ir, rho0[P.kr(ix, ir)], ti, t_now, mask);
        DM got = p.get_rho(ix, ir);
        double e = fm::maxabs(got - want);
        ynorm = std::max(ynorm, fm::maxabs(want));
        if (!(e <= err)) { err = e; wix = ix; wir = ir; isrho = true; }
      }
      for (unsigned is = 0; is < ns; is++) {
        double want = scal_manu ? P.s_star(ix, is, t_now) : P.scalar_propagate(ix, is, s0v[P.ks(ix, is)], ti, t_now, mask);
        double e = std::fabs(p.scal(ix, is) - want);
        ynorm = std::max(ynorm, std::fabs(want));
        if (!(e <= err)) { err = e; wix = ix; wir = is; isrho = false; }
      }
    }
    double allow;
    if (mask == 0) allow = 1e-13 * (amp + ynorm);  // nothing enabled: the state must not move (bitwise freeze is judged by C10 on the raw array)
    else if (sm.adaptive) allow = 2e3 * (atol + tol * ynorm);   // GSL accepts a step on abs + rel*|y_i| per component
    else allow = (sm.order == 2 ? 1e-5 : 2e-6) * (amp + ynorm);
    c.eval();
    c.worst(std::string("err_over_allowance.") + sm.name, allow > 0 ? err / allow : (err > 0 ? 1e300 : 0));
    if (!(err <= allow))
      c.violation(vh::fmt("C04:wrong-solution:%s", sm.adaptive ? "adaptive" : "fixed"),
                  what + vh::fmt(": worst deviation %.3g (allowance %.3g) at node %u %s %u", err, allow, wix, isrho ? "matrix" : "scalar", wir));
    if (idx < 5) c.sample(what);
  });
  c.count("hook.rebind", hook_counts().rebind); c.count("hook.rebind_skipped", hook_counts().rebind_skipped); c.count("hook.realias", hook_counts().realias);
}
