// C17 - node grids are monotone with the requested ends; lookup brackets its argument
#include "solver/problem.h"
#include <cfloat>
using namespace sv;

namespace {
struct Grid : public squids::SQuIDS {
  Grid(unsigned nx) : squids::SQuIDS(nx, 2, 1, 0, 0.0) {}
  void reinit(unsigned nx) { ini(nx, 2, 1, 0, 0.0); }
};
double ulps(double a, double b) {  // distance in units of the spacing at max(|a|,|b|)
  if (a == b) return 0;
  double m = std::max(std::fabs(a), std::fabs(b));
  double u = std::nextafter(m, INFINITY) - m;
  return std::fabs(a - b) / u;
}
void query(vh::Ctx& c, const Grid& g, const std::vector<double>& x, double q, const std::string& what) {
  unsigned nx = (unsigned)x.size();
  double a = x.front(), b = x.back();
  c.eval();
  bool inside = q >= a && q <= b;
  unsigned i = 0; bool threw = false;
  try { i = g.Get_i(q); } catch (std::exception&) { threw = true; }
  if (!inside) {
    c.count("lookup.outside");
    if (!threw) c.violation("C17:lookup:outside-not-rejected", what + vh::fmt(" Get_i(%.17g) returned %u for a grid on [%.17g,%.17g]", q, i, a, b));
    return;
  }
  c.count("lookup.inside");
  if (threw) { c.violation("C17:lookup:inside-rejected", what + vh::fmt(" Get_i(%.17g) threw for a grid on [%.17g,%.17g]", q, a, b)); return; }
  if (!(i <= nx - 2) || !(x[i] <= q && q <= x[i + 1]))
    c.violation("C17:lookup:not-bracketing", what + vh::fmt(" Get_i(%.17g)=%u but x[%u]=%.17g x[%u]=%.17g", q, i, i, i < nx ? x[i] : NAN, i + 1, i + 1 < nx ? x[i + 1] : NAN));
  else if (q == b && b > x[nx - 2] && i != nx - 2)
    c.violation("C17:lookup:last-node-not-in-last-interval", what + vh::fmt(" Get_i(x_last)=%u, nx=%u", i, nx));
}
void sweep(vh::Ctx& c, vh::Rng& r, const Grid& g, const std::vector<double>& x, const std::string& what, int per_interval) {
  unsigned nx = (unsigned)x.size();
  for (unsigned k = 0; k < nx; k++) {
    query(c, g, x, x[k], what);
    query(c, g, x, std::nextafter(x[k], INFINITY), what);
    query(c, g, x, std::nextafter(x[k], -INFINITY), what);
    if (k + 1 < nx) {
      query(c, g, x, x[k] + (x[k + 1] - x[k]) / 2, what);
      for (int m = 0; m < per_interval; m++) query(c, g, x, x[k] + (x[k + 1] - x[k]) * r.u01(), what);
    }
  }
  double a = x.front(), b = x.back(), w = b - a;
  double outs[] = {a - w, a - 1e-3 * w, b + 1e-3 * w, b + w, a - 1e30, b + 1e30, -INFINITY, INFINITY, -DBL_MAX, DBL_MAX};
  for (double q : outs) query(c, g, x, q, what);
}
void check_generated(vh::Ctx& c, const std::vector<double>& x, double a, double b, bool logscale, const std::string& what) {
  unsigned nx = (unsigned)x.size();
  c.eval();
  std::string sc = logscale ? "log" : "linear";
  for (unsigned k = 0; k < nx; k++) if (!std::isfinite(x[k])) { c.violation("C17:grid:" + sc + ":non-finite-node", what); return; }
  for (unsigned k = 0; k + 1 < nx; k++) if (!(x[k] <= x[k + 1])) { c.violation("C17:grid:" + sc + ":decreasing", what + vh::fmt(" x[%u]=%.17g > x[%u]=%.17g", k, x[k], k + 1, x[k + 1])); return; }
  if (x[0] != a && !(logscale && ulps(x[0], a) <= 2)) { c.violation("C17:grid:" + sc + ":wrong-first-node", what + vh::fmt(" x[0]=%.17g", x[0])); }
  // "a few units in the last place": exp(log(b)) carries the rounding of log b, amplified by |log b|
  double lim = logscale ? 8 + 4 * std::max(std::fabs(std::log(a)), std::fabs(std::log(b))) : 4;
  // linear: a + (b-a) is rounded at the magnitude of max(|a|,|b|), so that is where the "last place" is
  double ue = logscale ? ulps(x[nx - 1], b) : std::fabs(x[nx - 1] - b) / (std::nextafter(std::max(std::fabs(a), std::fabs(b)), INFINITY) - std::max(std::fabs(a), std::fabs(b)));
  c.worst("last_node_ulps." + sc, ue / lim);
  if (!(ue <= lim)) c.violation("C17:grid:" + sc + ":wrong-last-node", what + vh::fmt(" x[nx-1]=%.17g requested %.17g (%.1f ulps, allowed %.1f)", x[nx - 1], b, ue, lim));
  // equal spacing in x / log x: every node against the documented formula
  for (unsigned k = 0; k < nx; k++) {
    long double f = (long double)k / (nx - 1);
    long double want = logscale ? expl(logl(a) + (logl(b) - logl(a)) * f) : (long double)a + ((long double)b - a) * f;
    double tolk = logscale ? (16 + 4 * std::max(std::fabs(std::log(a)), std::fabs(std::log(b)))) * EPS * (double)want
                           : 8 * EPS * (std::fabs(a) + std::fabs(b));
    if (!(std::fabs((double)(x[k] - want)) <= tolk)) { c.violation("C17:grid:" + sc + ":unequal-spacing", what + vh::fmt(" node %u is %.17g, the documented formula gives %.17Lg", k, x[k], want)); return; }
  }
}
}  // namespace

void run_C17(vh::Ctx& c) {
  // part 1 (exhaustive in nx): nx = 2..130, both scales and a user grid each
  long E = 129;
  long N = c.n(1500, 40000);
  vh::run_cases(c, 17, E + N, [&](long idx, vh::Rng& r) {
    unsigned nx = idx < E ? (unsigned)(2 + idx) : (r.coin(0.8) ? 2 + r.pick(300) : 2 + r.pick(5000));
    if (idx < E) c.count("nx.exhaustive_2_130"); else c.count("nx.random");
    c.count(((nx - 1) & (nx - 2)) == 0 ? "nx_minus_1.power_of_two" : "nx_minus_1.other");
    Grid g(nx);
    // the same object is then re-initialised with another node count (mostly fewer): what it held before must not show
    for (int life = 0; life < 2; life++) {
    std::string lifetag;
    if (life == 1) {
      unsigned old = nx;
      int how = r.pick(10);
      nx = how < 6 ? 2 + r.pick(std::max(1u, old - 2)) : (how < 9 ? old + 1 + r.pick(200) : old);
      g.reinit(nx);
      lifetag = vh::fmt(" (object re-initialised from nx=%u)", old);
      c.count(nx < old ? "reinit.fewer_nodes" : (nx > old ? "reinit.more_nodes" : "reinit.same_nodes"));
    }
    int per = nx <= 40 ? 16 : (nx <= 300 ? 3 : 0);
    for (int kind = 0; kind < 3; kind++) {
      std::string what;
      std::vector<double> x;
      double req_a = 0, req_b = 0;
      if (kind == 0) {  // linear
        double a = r.normal() * std::pow(10.0, r.range(-10, 10)), w = r.logu(1e-10, 1e10) * (std::fabs(a) > 0 ? std::max(1.0, std::fabs(a) * 1e-6) : 1.0);
        if (r.coin(0.2)) a = 0;
        if (r.coin(0.2)) { a = (double)r.range(-5, 5); w = (double)r.range(1, 40); }
        if (r.coin(0.15)) { double sc = std::pow(10.0, -r.range(12, 290)); a = r.normal() * sc * (r.coin(0.3) ? 0 : 1); w = r.logu(0.01, 100) * sc; }  // tiny absolute scales: a<b is all that is required
        double b = a + w;
        if (!(b > a)) b = std::nextafter(a, INFINITY);  // the property is about a<b; w may vanish against a large |a|
        what = vh::fmt("linear grid nx=%u [%.17g,%.17g]", nx, a, b) + lifetag;
        c.desc(what);
        req_a = a; req_b = b;
        g.Set_xrange(a, b, r.coin() ? "linear" : "Lin");
        x = g.Get_xrange();
        if (x.size() != nx) { c.violation("C17:grid:wrong-node-count", what); continue; }
        check_generated(c, x, a, b, false, what);
        c.count("grid.linear");
      } else if (kind == 1) {  // logarithmic (the library documents a refusal below 1e-10)
        double a = r.logu(1e-10, 1e8), b = a * r.logu(1.0 + 1e-6, 1e10);
        if (r.coin(0.2)) { a = 1; b = 1000; }
        if (r.coin(0.15)) { a = r.logu(1e-10, 1e-8); b = a * (1 + std::pow(10.0, -r.range(2, 13))); if (!(b > a)) b = std::nextafter(a, INFINITY); }  // narrow ranges at the small end
        what = vh::fmt("log grid nx=%u [%.17g,%.17g]", nx, a, b) + lifetag;
        c.desc(what);
        req_a = a; req_b = b;
        g.Set_xrange(a, b, r.coin() ? "log" : "Log");
        x = g.Get_xrange();
        if (x.size() != nx) { c.violation("C17:grid:wrong-node-count", what); continue; }
        check_generated(c, x, a, b, true, what);
        c.count("grid.log");
      } else {  // user supplied
        int shape = r.pick(5);
        std::vector<double> u(nx);
        double v = r.normal() * std::pow(10.0, r.range(-3, 3));
        for (unsigned k = 0; k < nx; k++) {
          u[k] = v;
          double step;
          switch (shape) { case 0: step = 1.0; break; case 1: step = std::fabs(v) * 0.1 + 1e-3; break; case 2: step = r.coin(0.7) ? 1e-9 * (1 + std::fabs(v)) : r.uni(0.5, 2); break;
                           case 3: step = r.coin(0.1) ? 1e6 : r.uni(0.1, 1); break; default: step = r.logu(1e-6, 1e3); }
          v += step;
        }
        what = vh::fmt("user grid nx=%u shape=%d [%.17g,%.17g]", nx, shape, u.front(), u.back()) + lifetag;
        c.desc(what);
        g.Set_xrange(u);
        x = g.Get_xrange();
        c.eval();
        if (x != u) c.violation("C17:grid:user:not-stored-exactly", what);
        for (unsigned k = 0; k < nx; k++) if (g.Get_x(k) != u[k]) { c.violation("C17:grid:user:Get_x-differs", what); break; }
        // rejected inputs leave the grid unchanged
        {
          std::vector<double> bad = u; bool t1 = false, t2 = false, t3 = false;
          if (nx >= 2) { unsigned p = r.pick(nx - 1); std::swap(bad[p], bad[p + 1]); }
          try { g.Set_xrange(bad); } catch (std::exception&) { t1 = true; }
          std::vector<double> shorter(u.begin(), u.end() - 1), longer = u; longer.push_back(u.back() + 1);
          try { g.Set_xrange(shorter); } catch (std::exception&) { t2 = true; }
          try { g.Set_xrange(longer); } catch (std::exception&) { t3 = true; }
          c.eval(3); c.count("grid.user_rejections", 3);
          if (!t1) c.violation("C17:grid:user:unsorted-accepted", what);
          if (!t2 || !t3) c.violation("C17:grid:user:wrong-size-accepted", what + vh::fmt(" shorter threw=%d longer threw=%d", t2, t3));
          if (g.Get_xrange() != u) c.violation("C17:grid:user:modified-by-rejected-call", what);
        }
        c.count("grid.user");
      }
      c.nontrivial(vh::fnv_d(x.data(), x.size(), kind));
      sweep(c, r, g, x, what, per);
      if (kind < 2) {
        // the lookup clause is stated for the REQUESTED range: "for a<=x<=b ... (the last interval for x=b)".
        // A grid whose end nodes are only images of a and b under rounding (exp(log b) != b) rejects them.
        for (int endp = 0; endp < 2; endp++) {
          double q = endp ? req_b : req_a;
          c.eval(); c.count("lookup.requested_end_points");
          unsigned i = 0; bool threw = false;
          try { i = g.Get_i(q); } catch (std::exception&) { threw = true; }
          if (threw) c.violation(vh::fmt("C17:lookup:requested-%s-rejected", endp ? "upper-end" : "lower-end"), what + vh::fmt(" Get_i(%.17g) threw although it is the requested %s end; the %s node is %.17g", q, endp ? "upper" : "lower", endp ? "last" : "first", endp ? x.back() : x.front()));
          else if (!(i <= nx - 2) || !(x[i] <= q && q <= x[i + 1]) || (endp && i != nx - 2 && x[nx - 2] < q)) c.violation("C17:lookup:not-bracketing", what + vh::fmt(" Get_i(requested end %.17g)=%u", q, i));
        }
      }
      if (nx > 300) for (int m = 0; m < 400; m++) query(c, g, x, x.front() + (x.back() - x.front()) * r.u01(), what);
      if (idx < 3) c.sample(what);
    }
    }
  });
}
