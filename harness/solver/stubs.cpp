#include "solver/problem.h"
void run_C05(vh::Ctx&){} void run_C10(vh::Ctx&){}
