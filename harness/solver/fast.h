// fast.h - small fixed-size complex matrices in double, used to *generate* term functions and
// closed-form solutions for the solver monitors.  The basis formulas are the same textbook
// definitions as in common/ref.h (independent of the library); double precision is enough here
// because every oracle that uses these compares against integration tolerances >= 1e-9.
#pragma once
#include <complex>
#include <vector>
#include <cmath>
#include "common/ref.h"
#include "common/vh.h"

namespace fm {
typedef std::complex<double> cd;
struct DM {
  int n;
  cd a[36];
  explicit DM(int n_ = 0) : n(n_) { for (int i = 0; i < 36; i++) a[i] = 0; }
  cd& operator()(int i, int j) { return a[i * n + j]; }
  const cd& operator()(int i, int j) const { return a[i * n + j]; }
  static DM identity(int n) { DM m(n); for (int i = 0; i < n; i++) m(i, i) = 1; return m; }
};
inline DM operator*(const DM& x, const DM& y) {
  DM r(x.n); int n = x.n;
  for (int i = 0; i < n; i++) for (int k = 0; k < n; k++) { cd v = x(i, k); if (v == cd(0)) continue; for (int j = 0; j < n; j++) r(i, j) += v * y(k, j); }
  return r;
}
inline DM operator+(const DM& x, const DM& y) { DM r(x.n); for (int i = 0; i < x.n * x.n; i++) r.a[i] = x.a[i] + y.a[i]; return r; }
inline DM operator-(const DM& x, const DM& y) { DM r(x.n); for (int i = 0; i < x.n * x.n; i++) r.a[i] = x.a[i] - y.a[i]; return r; }
inline DM operator*(cd s, const DM& x) { DM r(x.n); for (int i = 0; i < x.n * x.n; i++) r.a[i] = s * x.a[i]; return r; }
inline DM operator*(double s, const DM& x) { return cd(s) * x; }
inline DM dag(const DM& x) { DM r(x.n); for (int i = 0; i < x.n; i++) for (int j = 0; j < x.n; j++) r(i, j) = std::conj(x(j, i)); return r; }
inline double maxabs(const DM& x) { double m = 0; for (int i = 0; i < x.n * x.n; i++) m = std::max(m, std::abs(x.a[i])); return m; }
inline cd trace(const DM& x) { cd s = 0; for (int i = 0; i < x.n; i++) s += x(i, i); return s; }

// components <-> matrix in the generalised Gell-Mann basis (k = d*i+j; see common/ref.h)
inline std::vector<double> to_comp(const DM& m) {
  int d = m.n;
  std::vector<double> c((size_t)d * d);
  double tr = 0;
  for (int i = 0; i < d; i++) tr += m(i, i).real();
  c[0] = tr / d;
  for (int i = 0; i < d; i++)
    for (int j = 0; j < d; j++) {
      if (i < j) c[d * i + j] = (m(i, j).real() + m(j, i).real()) / 2;
      else if (i > j) c[d * i + j] = (m(i, j).imag() - m(j, i).imag()) / 2;
      else if (i > 0) { int l = i; double co = std::sqrt(2.0 / ((double)l * (l + 1))), s = 0; for (int q = 0; q < l; q++) s += co * m(q, q).real(); s += -co * l * m(l, l).real(); c[d * i + j] = s / 2; }
    }
  return c;
}
template <class V>
inline DM from_comp(int d, const V& c) {
  DM m(d);
  for (int i = 0; i < d; i++) m(i, i) = c[0];
  for (int i = 0; i < d; i++)
    for (int j = 0; j < d; j++) {
      if (i < j) { m(i, j) += c[d * i + j]; m(j, i) += c[d * i + j]; }
      else if (i > j) { m(j, i) += cd(0, -1) * c[d * i + j]; m(i, j) += cd(0, 1) * c[d * i + j]; }
      else if (i > 0) { int l = i; double co = std::sqrt(2.0 / ((double)l * (l + 1))); for (int q = 0; q < l; q++) m(q, q) += co * c[d * i + j]; m(l, l) += -co * l * c[d * i + j]; }
    }
  return m;
}
inline DM from_ref(const ref::Mat& r) { DM m(r.n); for (int i = 0; i < r.n; i++) for (int j = 0; j < r.n; j++) m(i, j) = cd((double)r(i, j).real(), (double)r(i, j).imag()); return m; }
inline ref::Mat to_ref(const DM& m) { ref::Mat r(m.n); for (int i = 0; i < m.n; i++) for (int j = 0; j < m.n; j++) r(i, j) = ref::cx(m(i, j).real(), m(i, j).imag()); return r; }

inline DM rand_herm(vh::Rng& r, int d, double scale = 1.0) {
  DM a(d);
  for (int i = 0; i < d; i++) { a(i, i) = r.normal() * scale; for (int j = i + 1; j < d; j++) { a(i, j) = cd(r.normal(), r.normal()) * scale * 0.7; a(j, i) = std::conj(a(i, j)); } }
  return a;
}
inline DM rand_unitary(vh::Rng& r, int d) {
  // Gram-Schmidt in long double via ref, rounded
  ref::Mat u(d);
  for (int j = 0; j < d; j++) {
    std::vector<ref::cx> col(d);
    for (;;) {
      for (int i = 0; i < d; i++) col[i] = ref::cx(r.normal(), r.normal());
      for (int pass = 0; pass < 2; pass++)
        for (int k = 0; k < j; k++) { ref::cx dot = 0; for (int i = 0; i < d; i++) dot += std::conj(u(i, k)) * col[i]; for (int i = 0; i < d; i++) col[i] -= dot * u(i, k); }
      ref::real nn = 0; for (int i = 0; i < d; i++) nn += std::norm(col[i]); nn = std::sqrt(nn);
      if (nn < 1e-3L) continue;
      for (int i = 0; i < d; i++) u(i, j) = col[i] / nn;
      break;
    }
  }
  return from_ref(u);
}
// the largest eigenvalue magnitude is bounded by this (cheap bound for rate limits)
inline double norm_bound(const DM& m) { double r = 0; for (int i = 0; i < m.n; i++) { double s = 0; for (int j = 0; j < m.n; j++) s += std::abs(m(i, j)); r = std::max(r, s); } return r; }
}  // namespace fm
