// C10 - evolved state and clock depend only on total elapsed time, not on call history
#include "solver/problem.h"
#include <memory>
using namespace sv;

namespace {
struct Settings {
  int mode = 2;  // index into step_modes()
  double tol = 1e-9, h = 1e-3, hmax = 0;
  unsigned nsteps = 800;
};
void apply_settings(Problem& p, const Settings& s, const std::vector<StepMode>& modes) {
  const StepMode& sm = modes[s.mode];
  p.Set_GSL_step(sm.type); p.Set_AdaptiveStep(sm.adaptive);
  p.Set_rel_error(s.tol); p.Set_abs_error(s.tol); p.Set_h(s.h); p.Set_NumSteps(s.nsteps);
  if (s.hmax > 0) p.Set_h_max(s.hmax);
}
unsigned steps_for(const StepMode& sm) { return sm.order == 2 ? 12000 : sm.order == 4 ? 1500 : sm.order == 5 ? 800 : 250; }

struct Model {
  Params P;
  std::vector<DM> rho;
  std::vector<double> sc;
  double t = 0, tsum_abs = 0;
  int mask = 0;
  bool any = false;
  double budget = 0;  // accumulated integration allowance
  long roundings = 1;
};
void init_state(vh::Rng& r, Model& m, Problem& p) {
  const Params& P = m.P;
  m.rho.assign((size_t)P.nx * P.nr, DM(P.d)); m.sc.assign((size_t)P.nx * P.ns, 0.0);
  for (unsigned ix = 0; ix < P.nx; ix++) {
    for (unsigned ir = 0; ir < P.nr; ir++) { DM v = P.fam == MANUFACTURED ? P.rho_star(ix, ir, P.ti) : fm::rand_herm(r, P.d); m.rho[P.kr(ix, ir)] = v; p.set_rho(ix, ir, v); }
    for (unsigned is = 0; is < P.ns; is++) { double v = P.scalar_manufactured ? P.s_star(ix, is, P.ti) : r.normal(); m.sc[P.ks(ix, is)] = v; p.scal(ix, is) = v; }
  }
  m.t = P.ti; m.tsum_abs = std::fabs(P.ti); m.budget = 0; m.roundings = 1;
}
void load_state(const Model& m, Problem& p) {
  const Params& P = m.P;
  for (unsigned ix = 0; ix < P.nx; ix++) {
    for (unsigned ir = 0; ir < P.nr; ir++) p.set_rho(ix, ir, m.rho[P.kr(ix, ir)]);
    for (unsigned is = 0; is < P.ns; is++) p.scal(ix, is) = m.sc[P.ks(ix, is)];
  }
}
// deviation of the solver's stored state from given expectation
double deviation(const Problem& p, const std::vector<DM>& rho, const std::vector<double>& sc, const Params& P, double& ynorm) {
  double err = 0; ynorm = 0;
  for (unsigned ix = 0; ix < P.nx; ix++) {
    for (unsigned ir = 0; ir < P.nr; ir++) { double e = fm::maxabs(p.get_rho(ix, ir) - rho[P.kr(ix, ir)]); if (!(e <= err)) err = e; ynorm = std::max(ynorm, fm::maxabs(rho[P.kr(ix, ir)])); }
    for (unsigned is = 0; is < P.ns; is++) { double e = std::fabs(const_cast<Problem&>(p).scal(ix, is) - sc[P.ks(ix, is)]); if (!(e <= err)) err = e; ynorm = std::max(ynorm, std::fabs(sc[P.ks(ix, is)])); }
  }
  return err;
}
bool views_ok(vh::Ctx& c, const Problem& p, const std::string& what, const char* after) {
  unsigned nx = p.NX(), nr = p.NR(), ns = p.NS(), d = p.D();
  size_t stride = (size_t)nr * d * d + ns;
  const double* base = p.rho_ptr(0, 0);
  for (unsigned ix = 0; ix < nx; ix++) {
    for (unsigned ir = 0; ir < nr; ir++) {
      if (p.erho_ptr(ix, ir) != p.rho_ptr(ix, ir)) { c.violation("C10:views:estate-not-aliased-to-state", what + vh::fmt(" after %s: node %u matrix %u", after, ix, ir)); return false; }
      if (p.rho_ptr(ix, ir) != base + ix * stride + (size_t)ir * d * d) { c.violation("C10:views:state-not-bound-to-system-array", what + vh::fmt(" after %s: node %u matrix %u", after, ix, ir)); return false; }
    }
    if (ns > 0 && (p.escal_ptr(ix) != p.scal_ptr(ix) || p.scal_ptr(ix) != base + ix * stride + (size_t)nr * d * d)) { c.violation("C10:views:scalar-view-not-aliased", what + vh::fmt(" after %s: node %u", after, ix)); return false; }
  }
  return true;
}
Params gen_params(vh::Rng& r, RhoFamily fam, double ti) {
  Params P;
  unsigned nx = 1 + r.pick(4), d = 2 + r.pick(5), nr = 1 + r.pick(2), ns = r.pick(3);
  P.generate(r, nx, d, nr, ns, ti, fam, fam == MANUFACTURED, /*constant_rates=*/true, /*rate=*/r.uni(0.3, 0.8));
  return P;
}
}  // namespace

void run_C10(vh::Ctx& c) {
  squids::verif::event_hook() = on_event;
  auto modes = step_modes();
  long N = c.n(900, 30000);
  vh::run_cases(c, 10, N, [&](long idx, vh::Rng& r) {
    RhoFamily fam = (idx % 3 == 2) ? MANUFACTURED : COMMUTING;
    static const double tinis[] = {0.0, 0.5, -0.5, 1000.0};
    Model m;
    m.P = gen_params(r, fam, tinis[r.pick(4)]);
    if (fam == MANUFACTURED && r.coin(0.5)) { m.P.kappa = r.uni(0.3, 1.0) * r.sign(); c.count("state_dependent_sources"); }
    std::unique_ptr<Problem> p(new Problem(m.P));
    Settings st;
    st.mode = r.pick((unsigned)modes.size()); st.tol = std::pow(10.0, -r.uni(8, 10)); st.nsteps = steps_for(modes[st.mode]);
    if (modes[st.mode].order == 2) st.tol = std::max(st.tol, 1e-8);
    apply_settings(*p, st, modes);
    m.mask = fam == MANUFACTURED ? (OTHER | OSCAL | (int)r.pick(4) | (r.coin() ? GSCAL : 0)) : (int)r.pick(32);
    p->set_mask(m.mask, r.pick(120)); m.any = m.mask != 0;
    init_state(r, m, *p);
    int len = 3 + r.pick(10);
    std::string hist = vh::fmt("family=%s nx=%u d=%u nrhos=%u nscalars=%u t_ini=%g mask=%d stepper=%s ops:", fam == MANUFACTURED ? "manufactured" : "commuting", m.P.nx, m.P.d, m.P.nr, m.P.ns, m.P.ti, m.mask, modes[st.mode].name);
    c.count(fam == MANUFACTURED ? "family.manufactured" : "family.commuting");
    double total_T = 0;
    for (int op = 0; op < len; op++) {
      int kind = r.pick(10);
      if (kind <= 3) {
        // ---- Evolve(dt)
        double dt = r.coin(0.15) ? 0.0 : (r.coin(0.3) ? r.logu(1e-6, 1e-2) : r.uni(0.05, 0.8));
        if (total_T + dt > 3.5) dt = 0.0;
        total_T += dt;
        hist += vh::fmt(" Evolve(%.6g)", dt);
        c.desc(hist);
        const Params& P = m.P;
        const StepMode& sm = modes[st.mode];
        size_t nsys = (size_t)P.nx * ((size_t)P.nr * P.d * P.d + P.ns);
        std::vector<double> before(p->rho_ptr(0, 0), p->rho_ptr(0, 0) + nsys);
        double t0 = m.t, t1 = m.t + dt;
        p->mon.arm(&c, "C10", t0, t1, m.mask, m.any, P.nx, P.nr, P.ns, sm.adaptive ? 1 : st.nsteps);
        try { p->Evolve(dt); }
        catch (std::exception& e) { c.eval(); c.violation("C10:evolve-threw", hist + ": " + e.what()); return; }
        long pre_calls = p->mon.prederive_calls; std::vector<double> pre_times = p->mon.prederive_times;
        p->mon.finish();
        c.eval(); c.count(dt == 0 ? "evolve.zero_length" : "evolve.segments"); c.count(m.any ? "evolve.with_numerics" : "evolve.without_numerics");
        m.t = t1; m.tsum_abs += std::fabs(dt); m.roundings += sm.adaptive || !m.any ? 1 : st.nsteps;
        // (1) clock
        if (!(std::fabs(p->Get_t() - m.t) <= 4 * EPS * m.tsum_abs * m.roundings)) c.violation("C10:clock", hist + vh::fmt(": Get_t()=%.17g expected %.17g", p->Get_t(), m.t));
        m.t = p->Get_t();  // carry the library's own (legitimately rounded) clock
        if (p->Get_t_initial() != P.ti) c.violation("C10:initial-time-changed", hist);
        // (5) views
        if (!views_ok(c, *p, hist, "Evolve")) return;
        if (!m.any) {
          // (4) all numerics off: bitwise freeze, pre-derivative callback with the new time
          if (memcmp(before.data(), p->rho_ptr(0, 0), nsys * sizeof(double)) != 0) c.violation("C10:no-numerics:state-changed", hist);
          if (pre_calls < 1) c.violation("C10:no-numerics:prederive-not-called", hist);
          for (double tt : pre_times) if (tt != p->Get_t()) { c.violation("C10:no-numerics:prederive-with-wrong-time", hist + vh::fmt(": PreDerive(%.17g), clock %.17g", tt, p->Get_t())); break; }
          continue;
        }
        // (2) closed form of this segment from the carried expectation
        std::vector<DM> rho1(m.rho.size(), DM(P.d)); std::vector<double> sc1(m.sc.size());
        for (unsigned ix = 0; ix < P.nx; ix++) {
          for (unsigned ir = 0; ir < P.nr; ir++) rho1[P.kr(ix, ir)] = P.fam == MANUFACTURED ? P.rho_star(ix, ir, m.t) : P.comm_propagate(ix, ir, m.rho[P.kr(ix, ir)], t0, m.t, m.mask);
          for (unsigned is = 0; is < P.ns; is++) sc1[P.ks(ix, is)] = P.scalar_manufactured ? P.s_star(ix, is, m.t) : P.scalar_propagate(ix, is, m.sc[P.ks(ix, is)], t0, m.t, m.mask);
        }
        double ynorm;
        double seg_allow_unit = sm.adaptive ? 2e3 * st.tol : (sm.order == 2 ? 1e-5 : 2e-6);
        // (3) history-free twin: a fresh object started from the expected pre-segment state
        {
          Params Pt = P; Pt.ti = t0;
          Problem twin(Pt);
          apply_settings(twin, st, modes);
          twin.set_mask(m.mask, r.pick(120));
          Model tm; tm.P = Pt; tm.rho = m.rho; tm.sc = m.sc;
          load_state(tm, twin);
          twin.Evolve(dt);
          std::vector<DM> trho; std::vector<double> tsc;
          for (unsigned ix = 0; ix < P.nx; ix++) { for (unsigned ir = 0; ir < P.nr; ir++) trho.push_back(twin.get_rho(ix, ir)); }
          for (unsigned ix = 0; ix < P.nx; ix++) for (unsigned is = 0; is < P.ns; is++) tsc.push_back(twin.scal(ix, is));
          // reorder: deviation() indexes by kr/ks which is ix-major for both
          double errt = deviation(*p, trho, tsc, P, ynorm);
          double allow = 4 * (m.budget + seg_allow_unit * (1 + ynorm)) * 2;
          c.worst("twin.err_over_allowance", allow > 0 ? errt / allow : 0);
          c.eval(); c.count("twin_comparisons");
          if (!(errt <= allow)) c.violation("C10:state-differs-from-history-free-twin", hist + vh::fmt(": deviation %.3g (allowance %.3g)", errt, allow));
        }
        m.rho = rho1; m.sc = sc1;
        double err = deviation(*p, m.rho, m.sc, P, ynorm);
        m.budget += seg_allow_unit * (1 + ynorm);
        double allow = 4 * m.budget;
        c.worst("closedform.err_over_allowance", err / allow);
        c.eval();
        if (!(err <= allow)) c.violation("C10:state-differs-from-composed-exact-map", hist + vh::fmt(": deviation %.3g (allowance %.3g)", err, allow));
      } else if (kind == 4 || kind == 5) {
        // ---- toggle a term switch / Set_AnyNumerics
        if (kind == 5 && fam == COMMUTING && r.coin(0.5)) {
          bool b = r.coin(0.4);
          p->Set_AnyNumerics(b); m.any = b;
          hist += vh::fmt(" AnyNumerics(%d)", (int)b); c.count("op.any_numerics");
        } else {
          int bit = 1 << r.pick(5);
          if (fam == MANUFACTURED && (bit == OTHER || bit == OSCAL)) bit = COH;  // sources must stay on for the manufactured solution to stay exact
          bool on = r.coin();
          p->toggle(bit, on);
          if (on) m.mask |= bit; else m.mask &= ~bit;
          m.any = m.mask != 0;
          hist += vh::fmt(" switch(%d,%d)", bit, (int)on); c.count("op.toggle");
        }
      } else if (kind == 6) {
        // ---- stepper / tolerances
        st.mode = r.pick((unsigned)modes.size()); st.tol = std::pow(10.0, -r.uni(8, 10)); st.nsteps = steps_for(modes[st.mode]); st.h = 1e-3 * r.uni(0.3, 3);
        if (modes[st.mode].order == 2) st.tol = std::max(st.tol, 1e-8);
        st.hmax = r.coin(0.2) ? r.uni(0.05, 1) : 0;
        apply_settings(*p, st, modes);
        hist += vh::fmt(" stepper(%s,tol=%.2g)", modes[st.mode].name, st.tol); c.count("op.retune");
      } else if (kind == 7) {
        // ---- move construction; the moved-from object is destroyed at once
        std::unique_ptr<Problem> q(new Problem(std::move(*p)));
        p.reset(); p = std::move(q);
        hist += " move-construct"; c.count("op.move_construct");
        c.desc(hist);
        if (!views_ok(c, *p, hist, "move construction")) return;
      } else if (kind == 8) {
        if (r.coin(0.15)) {
          // ---- move assignment onto itself: nothing may change
          squids::SQuIDS& self = *p;   // the library's operator only: the harness' own members are not self-move safe (std::vector)
          self = std::move(static_cast<squids::SQuIDS&>(*p));
          hist += " move-assign(onto itself)"; c.count("op.move_assign_self");
          c.desc(hist);
          if (!views_ok(c, *p, hist, "self move assignment")) return;
          goto after_op;
        }
        // ---- move assignment onto an empty or a used object
        std::unique_ptr<Problem> q;
        bool used = r.coin();
        if (used) {
          Params Q = gen_params(r, COMMUTING, 0.25);
          q.reset(new Problem(Q));
          apply_settings(*q, st, modes); q->set_mask(COH | NONCOH | (Q.ns ? GSCAL : 0));
          Model qm; qm.P = Q; init_state(r, qm, *q);
          q->Evolve(0.05);
        } else q.reset(new Problem());
        *q = std::move(*p);
        p.reset(); p = std::move(q);
        hist += used ? " move-assign(onto used)" : " move-assign(onto empty)"; c.count(used ? "op.move_assign_used" : "op.move_assign_empty");
        c.desc(hist);
        if (!views_ok(c, *p, hist, "move assignment")) return;
      } else {
        // ---- re-initialisation with other sizes and start time
        m.P = gen_params(r, fam, tinis[r.pick(4)] + r.uni(-0.1, 0.1));
        p->reinit(m.P);
        init_state(r, m, *p);
        total_T = 0;
        hist += vh::fmt(" ini(nx=%u,d=%u,nrhos=%u,nscalars=%u,t=%g)", m.P.nx, m.P.d, m.P.nr, m.P.ns, m.P.ti); c.count("op.reinit");
        c.desc(hist);
        c.eval();
        if (p->Get_t() != m.P.ti || p->Get_t_initial() != m.P.ti) c.violation("C10:reinit:clock-not-reset", hist + vh::fmt(": Get_t()=%.17g Get_t_initial()=%.17g", p->Get_t(), p->Get_t_initial()));
        if (p->NX() != m.P.nx || p->D() != m.P.d || p->NR() != m.P.nr || p->NS() != m.P.ns) c.violation("C10:reinit:sizes", hist);
        if (!views_ok(c, *p, hist, "ini")) return;
      }
    after_op:
      // after every operation the clock and the stored state are what the model says (no operation but Evolve moves them)
      if (kind > 3) {
        c.desc(hist);
        double ynorm;
        if (p->Get_t() != m.t) c.violation("C10:clock-changed-by-non-evolve-operation", hist + vh::fmt(": Get_t()=%.17g expected %.17g", p->Get_t(), m.t));
        double err = deviation(*p, m.rho, m.sc, m.P, ynorm);
        if (!(err <= 4 * m.budget + 1e-13 * (1 + ynorm))) c.violation("C10:state-changed-by-non-evolve-operation", hist + vh::fmt(": deviation %.3g", err));
      }
    }
    c.nontrivial(vh::fnv_str(hist));
    if (idx < 6) c.sample(hist);
  });
  c.count("hook.rebind", hook_counts().rebind); c.count("hook.rebind_skipped", hook_counts().rebind_skipped); c.count("hook.realias", hook_counts().realias);
}
