// problem.h - a SQuIDS subclass whose term functions have exact solutions, with an online
// monitor of the callbacks the library makes.
#pragma once
#include <SQuIDS/SQuIDS.h>
#include <SQuIDS/detail/VerifHooks.h>
#include <gsl/gsl_odeiv2.h>
#include "common/vh.h"
#include "solver/fast.h"

namespace sv {
using fm::DM;
using fm::cd;
using squids::SU_vector;

enum { COH = 1, NONCOH = 2, OTHER = 4, GSCAL = 8, OSCAL = 16 };
enum RhoFamily { MANUFACTURED, COMMUTING };
static const double EPS = 2.220446049250313e-16;

// ---- hook events (H5), counted per thread
struct HookCounts { long rebind = 0, rebind_skipped = 0, realias = 0; };
inline HookCounts& hook_counts() { static thread_local HookCounts h; return h; }
inline void on_event(int kind, double, double) {
  if (kind == squids::verif::EV_REBIND) hook_counts().rebind++;
  else if (kind == squids::verif::EV_REBIND_SKIPPED) hook_counts().rebind_skipped++;
  else if (kind == squids::verif::EV_REALIAS) hook_counts().realias++;
}

struct Params {
  unsigned nx = 0, d = 0, nr = 0, ns = 0;
  double ti = 0;
  RhoFamily fam = MANUFACTURED;
  // manufactured targets rho*(t) = R0 + sin(wa t) R1 + cos(wb t) R2, terms H(t) = Ha + sin(wh t) Hb, G(t) = Ga + cos(wg t) Gb
  std::vector<DM> R0, R1, R2, Ha, Hb, Ga, Gb;
  std::vector<double> wa, wb, wh, wg;
  // commuting family: K1 = V diag(k1) V^dag, K2 = V diag(k2) V^dag, H = fh(t) K1, Gamma = fg(t) K2, constant source S
  std::vector<DM> V, K1, K2, S;
  std::vector<std::vector<double>> k1, k2;
  std::vector<double> fha, fhw, fga, fgw;  // f(t) = 1 + a sin(w t); a = 0 for constant rates
  // scalars: manufactured s*(t) = s0 + s1 sin(ws t); gamma(t) = g0 (1 + ga cos(gw t)); constant source q
  std::vector<double> s0, s1, ws, g0, ga, gw, q;
  bool scalar_manufactured = true;
  // manufactured family only: the sources additionally read the in-step state (of the NEXT node), as a
  // non-linear / coupled user term would: + kappa*(target - state).  The target stays the exact solution,
  // and any view that is stale or bound to the wrong part of the stepper's buffer shows up as a deviation.
  double kappa = 0.0;
  // overall magnitude of every state-sized quantity (targets, sources, initial values); the equations are linear in it
  double amp = 1.0;
  // H0 for expectation values: components h0a + x*h0b (diagonal generators and identity only)
  std::vector<std::vector<double>> h0a, h0b;

  void generate(vh::Rng& r, unsigned nx_, unsigned d_, unsigned nr_, unsigned ns_, double ti_, RhoFamily f, bool scal_manu, bool constant_rates, double rate = 1.0, double amp_ = 1.0) {
    amp = amp_;
    nx = nx_; d = d_; nr = nr_; ns = ns_; ti = ti_; fam = f; scalar_manufactured = scal_manu;
    size_t n = (size_t)nx * nr;
    R0.clear(); R1.clear(); R2.clear(); Ha.clear(); Hb.clear(); Ga.clear(); Gb.clear(); wa.clear(); wb.clear(); wh.clear(); wg.clear();
    V.clear(); K1.clear(); K2.clear(); S.clear(); k1.clear(); k2.clear(); fha.clear(); fhw.clear(); fga.clear(); fgw.clear();
    for (size_t i = 0; i < n; i++) {
      // every (node, matrix) gets its own matrices and frequencies, so that an index mix-up is visible
      R0.push_back(fm::rand_herm(r, d)); R1.push_back(fm::rand_herm(r, d, 0.5)); R2.push_back(fm::rand_herm(r, d, 0.5));
      double hs = rate / (fm::norm_bound(fm::rand_herm(r, d)) + 1);
      DM ha = fm::rand_herm(r, d), hb = fm::rand_herm(r, d), ga_ = fm::rand_herm(r, d), gb = fm::rand_herm(r, d);
      Ha.push_back((rate / (fm::norm_bound(ha) + 1e-9)) * ha); Hb.push_back((0.5 * rate / (fm::norm_bound(hb) + 1e-9)) * hb);
      Ga.push_back((0.6 * rate / (fm::norm_bound(ga_) + 1e-9)) * ga_); Gb.push_back((0.3 * rate / (fm::norm_bound(gb) + 1e-9)) * gb);
      (void)hs;
      wa.push_back(r.uni(0.5, 2)); wb.push_back(r.uni(0.5, 2)); wh.push_back(r.uni(0.5, 1.5)); wg.push_back(r.uni(0.5, 1.5));
      DM v = fm::rand_unitary(r, d), d1(d), d2(d);
      std::vector<double> a1(d), a2(d);
      for (unsigned q_ = 0; q_ < d; q_++) { a1[q_] = r.uni(-1, 1) * rate; a2[q_] = r.uni(-0.3, 0.7) * rate; d1(q_, q_) = a1[q_]; d2(q_, q_) = a2[q_]; }
      V.push_back(v); k1.push_back(a1); k2.push_back(a2);
      K1.push_back(v * d1 * fm::dag(v)); K2.push_back(v * d2 * fm::dag(v));
      S.push_back(fm::rand_herm(r, d, 0.5 * rate));
      fha.push_back(constant_rates ? 0 : r.uni(0.2, 0.8)); fhw.push_back(r.uni(0.5, 2)); fga.push_back(constant_rates ? 0 : r.uni(0.2, 0.8)); fgw.push_back(r.uni(0.5, 2));
    }
    size_t m = (size_t)nx * ns;
    s0.clear(); s1.clear(); ws.clear(); g0.clear(); ga.clear(); gw.clear(); q.clear();
    for (size_t i = 0; i < m; i++) {
      s0.push_back(r.normal()); s1.push_back(r.normal()); ws.push_back(r.uni(0.5, 2));
      g0.push_back(r.uni(-0.3, 1.0) * rate); ga.push_back(constant_rates ? 0 : r.uni(0.1, 0.6)); gw.push_back(r.uni(0.5, 2)); q.push_back(r.normal() * rate);
    }
    if (amp != 1.0) {
      for (size_t i = 0; i < n; i++) { R0[i] = amp * R0[i]; R1[i] = amp * R1[i]; R2[i] = amp * R2[i]; S[i] = amp * S[i]; }
      for (size_t i = 0; i < m; i++) { s0[i] *= amp; s1[i] *= amp; q[i] *= amp; }
    }
    h0a.clear(); h0b.clear();
    for (unsigned ir = 0; ir < nr; ir++) {
      std::vector<double> a(d * d, 0.0), b(d * d, 0.0);
      a[0] = r.normal(); b[0] = r.normal();
      for (unsigned l = 1; l < d; l++) { a[d * l + l] = r.normal(); b[d * l + l] = r.normal(); }
      h0a.push_back(a); h0b.push_back(b);
    }
  }
  size_t kr(unsigned ix, unsigned ir) const { return (size_t)ix * nr + ir; }
  size_t ks(unsigned ix, unsigned is) const { return (size_t)ix * ns + is; }
  // manufactured
  DM rho_star(unsigned ix, unsigned ir, double t) const { size_t k = kr(ix, ir); return R0[k] + std::sin(wa[k] * t) * R1[k] + std::cos(wb[k] * t) * R2[k]; }
  DM drho_star(unsigned ix, unsigned ir, double t) const { size_t k = kr(ix, ir); return (wa[k] * std::cos(wa[k] * t)) * R1[k] + (-wb[k] * std::sin(wb[k] * t)) * R2[k]; }
  DM Hm(unsigned ix, unsigned ir, double t) const { size_t k = kr(ix, ir); return Ha[k] + std::sin(wh[k] * t) * Hb[k]; }
  DM Gm(unsigned ix, unsigned ir, double t) const { size_t k = kr(ix, ir); return Ga[k] + std::cos(wg[k] * t) * Gb[k]; }
  // commuting
  double fh(size_t k, double t) const { return 1 + fha[k] * std::sin(fhw[k] * t); }
  double fg(size_t k, double t) const { return 1 + fga[k] * std::sin(fgw[k] * t); }
  double Fh(size_t k, double t0, double t1) const { return (t1 - t0) + (fha[k] != 0 ? fha[k] * (std::cos(fhw[k] * t0) - std::cos(fhw[k] * t1)) / fhw[k] : 0.0); }
  double Fg(size_t k, double t0, double t1) const { return (t1 - t0) + (fga[k] != 0 ? fga[k] * (std::cos(fgw[k] * t0) - std::cos(fgw[k] * t1)) / fgw[k] : 0.0); }
  // exact map of one segment for the commuting family under the enabled terms `mask`
  DM comm_propagate(unsigned ix, unsigned ir, const DM& rho0, double t0, double t1, int mask) const {
    size_t k = kr(ix, ir);
    DM rt = fm::dag(V[k]) * rho0 * V[k], st = fm::dag(V[k]) * S[k] * V[k], out(d);
    bool src = mask & OTHER;
    double FH = (mask & COH) ? Fh(k, t0, t1) : 0.0, FG = (mask & NONCOH) ? Fg(k, t0, t1) : 0.0, T = t1 - t0;
    for (unsigned i = 0; i < d; i++)
      for (unsigned j = 0; j < d; j++) {
        // exponent integral: lambda*T with lambda = i(k1_i-k1_j) + (k2_i+k2_j), generalised to time dependent rates
        cd lamT = cd(0, 1) * (k1[k][i] - k1[k][j]) * FH + (k2[k][i] + k2[k][j]) * FG;
        cd e = std::exp(-lamT);
        out(i, j) = rt(i, j) * e;
        if (src) {
          // requires constant rates (fha=fga=0): s (1-exp(-lam T))/lam
          cd lam = (T != 0) ? lamT / T : cd(0);
          cd g = (std::abs(lamT) < 1e-6) ? cd(T) * (cd(1) - lamT / 2.0 + lamT * lamT / 6.0) : (cd(1) - e) / lam;
          out(i, j) += st(i, j) * g;
        }
      }
    return V[k] * out * fm::dag(V[k]);
  }
  double s_star(unsigned ix, unsigned is, double t) const { size_t k = ks(ix, is); return s0[k] + s1[k] * std::sin(ws[k] * t); }
  double ds_star(unsigned ix, unsigned is, double t) const { size_t k = ks(ix, is); return s1[k] * ws[k] * std::cos(ws[k] * t); }
  double gam(unsigned ix, unsigned is, double t) const { size_t k = ks(ix, is); return g0[k] * (1 + ga[k] * std::cos(gw[k] * t)); }
  double Gam(size_t k, double t0, double t1) const { return g0[k] * ((t1 - t0) + (ga[k] != 0 ? ga[k] * (std::sin(gw[k] * t1) - std::sin(gw[k] * t0)) / gw[k] : 0.0)); }
  double scalar_propagate(unsigned ix, unsigned is, double v0, double t0, double t1, int mask) const {
    size_t k = ks(ix, is);
    double G = (mask & GSCAL) ? Gam(k, t0, t1) : 0.0, T = t1 - t0;
    double e = std::exp(-G), out = v0 * e;
    if (mask & OSCAL) { double lam = T != 0 ? G / T : 0; out += q[k] * (std::fabs(G) < 1e-6 ? T * (1 - G / 2 + G * G / 6) : (1 - e) / lam); }
    return out;
  }
  std::vector<double> h0_comp(double x, unsigned ir) const { std::vector<double> v(d * d); for (unsigned i = 0; i < d * d; i++) v[i] = h0a[ir][i] + x * h0b[ir][i]; return v; }
};

// ---- online monitor of the callbacks
struct Monitor {
  vh::Ctx* ctx = nullptr;
  std::string prop = "C04";
  bool armed = false, numerics = true;
  double t_lo = 0, t_hi = 0, cur_t = 0, slack_steps = 1;
  bool in_eval = false;
  int mask = 0;
  unsigned nx = 0, nr = 0, ns = 0;
  std::vector<char> seen[5];
  long prederive_calls = 0, term_calls = 0, evaluations = 0;
  std::vector<double> prederive_times;  // kept short: only the last few
  void arm(vh::Ctx* c, const std::string& p, double t0, double t1, int m, bool num, unsigned nx_, unsigned nr_, unsigned ns_, double steps = 1) {
    slack_steps = steps; ctx = c; prop = p; armed = true; numerics = num; t_lo = std::min(t0, t1); t_hi = std::max(t0, t1); mask = m; in_eval = false; nx = nx_; nr = nr_; ns = ns_;
    prederive_calls = term_calls = evaluations = 0; prederive_times.clear();
    for (int k = 0; k < 3; k++) seen[k].assign((size_t)nx * nr, 0);
    for (int k = 3; k < 5; k++) seen[k].assign((size_t)nx * ns, 0);
  }
  void bad(const std::string& key, const std::string& detail) const { if (ctx) ctx->violation(prop + ":callbacks:" + key, detail); }
  void check_complete() {
    static const char* names[5] = {"HI", "GammaRho", "InteractionsRho", "GammaScalar", "InteractionsScalar"};
    for (int k = 0; k < 5; k++) {
      if (!(mask & (1 << k))) continue;
      for (size_t i = 0; i < seen[k].size(); i++)
        if (!seen[k][i]) { bad(std::string("term-not-evaluated:") + names[k], vh::fmt("%s was not called for node %zu index %zu in the derivative evaluation at t=%.17g", names[k], i / (k < 3 ? nr : ns), i % (k < 3 ? nr : ns), cur_t)); return; }
    }
  }
  void prederive(double t) {
    if (!armed) return;
    prederive_calls++;
    if (prederive_times.size() < 4) prederive_times.push_back(t);
    // fixed stepping accumulates t += h, one rounding per step
    double slack = 8 * EPS * std::max(std::fabs(t_lo), std::fabs(t_hi)) * (1 + slack_steps);
    if (!(t >= t_lo - slack && t <= t_hi + slack)) bad("time-outside-evolve-window", vh::fmt("PreDerive(%.17g) outside [%.17g,%.17g]", t, t_lo, t_hi));
    if (!numerics) return;
    if (in_eval) check_complete();
    in_eval = true; cur_t = t; evaluations++;
    for (int k = 0; k < 5; k++) std::fill(seen[k].begin(), seen[k].end(), 0);
  }
  void term(int k, unsigned ix, unsigned idx, double t) {
    if (!armed) return;
    static const char* names[5] = {"HI", "GammaRho", "InteractionsRho", "GammaScalar", "InteractionsScalar"};
    term_calls++;
    unsigned lim = k < 3 ? nr : ns;
    if (ix >= nx || idx >= lim) { bad(std::string("index-out-of-range:") + names[k], vh::fmt("%s(ix=%u,index=%u,t=%.17g) with nx=%u limit=%u", names[k], ix, idx, t, nx, lim)); return; }
    if (!numerics) { bad(std::string("term-called-without-numerics:") + names[k], "a term was evaluated although all numerics are off"); return; }
    if (!in_eval) bad(std::string("term-before-prederive:") + names[k], vh::fmt("t=%.17g", t));
    else if (t != cur_t) bad(std::string("wrong-time:") + names[k], vh::fmt("%s(ix=%u,index=%u) got t=%.17g but this derivative evaluation is at t=%.17g", names[k], ix, idx, t, cur_t));
    seen[k][(size_t)ix * lim + idx] = 1;
  }
  void finish() { if (armed && numerics && in_eval) check_complete(); armed = false; in_eval = false; }
};

class Problem : public squids::SQuIDS {
 public:
  Params P;
  int mask = 0;
  mutable Monitor mon;
  Problem() {}
  Problem(const Params& p) : squids::SQuIDS(p.nx, p.d, p.nr, p.ns, p.ti), P(p) {}
  Problem(Problem&&) = default;
  Problem& operator=(Problem&&) = default;
  void reinit(const Params& p) { P = p; ini(p.nx, p.d, p.nr, p.ns, p.ti); }

  // a switch setting can be reached through any order of setter calls; `order` (any number) picks one of the 120
  void set_mask(int m, unsigned order = 0) {
    mask = m;
    int idx[5] = {0, 1, 2, 3, 4};
    for (int i = 4; i > 0; i--) { int j = (int)(order % (unsigned)(i + 1)); order /= (unsigned)(i + 1); std::swap(idx[i], idx[j]); }
    for (int k = 0; k < 5; k++) switch (idx[k]) {
      case 0: Set_CoherentRhoTerms(m & COH); break; case 1: Set_NonCoherentRhoTerms(m & NONCOH); break; case 2: Set_OtherRhoTerms(m & OTHER); break;
      case 3: Set_GammaScalarTerms(m & GSCAL); break; default: Set_OtherScalarTerms(m & OSCAL);
    }
  }
  void toggle(int bit, bool on) {
    if (on) mask |= bit; else mask &= ~bit;
    switch (bit) {
      case COH: Set_CoherentRhoTerms(on); break; case NONCOH: Set_NonCoherentRhoTerms(on); break; case OTHER: Set_OtherRhoTerms(on); break;
      case GSCAL: Set_GammaScalarTerms(on); break; case OSCAL: Set_OtherScalarTerms(on); break;
    }
  }
  // ---- state access
  unsigned NX() const { return nx; } unsigned D() const { return nsun; } unsigned NR() const { return nrhos; } unsigned NS() const { return nscalars; }
  SU_vector& rho(unsigned ix, unsigned ir) { return state[ix].rho[ir]; }
  const SU_vector& rho(unsigned ix, unsigned ir) const { return state[ix].rho[ir]; }
  double& scal(unsigned ix, unsigned is) { return state[ix].scalar[is]; }
  const double* rho_ptr(unsigned ix, unsigned ir) const { return &state[ix].rho[ir][0]; }
  const double* erho_ptr(unsigned ix, unsigned ir) const { return &estate[ix].rho[ir][0]; }
  const double* scal_ptr(unsigned ix) const { return state[ix].scalar; }
  const double* escal_ptr(unsigned ix) const { return estate[ix].scalar; }
  void set_rho(unsigned ix, unsigned ir, const DM& m) { auto c = fm::to_comp(m); for (unsigned k = 0; k < nsun * nsun; k++) state[ix].rho[ir][k] = c[k]; }
  DM get_rho(unsigned ix, unsigned ir) const { return fm::from_comp((int)nsun, state[ix].rho[ir].GetComponents()); }
  void force_time(double t) { Set_t(t); }

  // ---- the seven virtuals
  SU_vector vec(const DM& m) const { return SU_vector(fm::to_comp(m)); }
  SU_vector poison() const { SU_vector v(nsun); v.SetAllComponents(std::nan("")); return v; }
  SU_vector H0(double x, unsigned int ir) const override { return SU_vector(P.h0_comp(x, ir)); }
  SU_vector HI(unsigned int ix, unsigned int ir, double t) const override {
    mon.term(0, ix, ir, t);
    if (ix >= nx || ir >= nrhos || !(mask & COH)) return poison();
    size_t k = P.kr(ix, ir);
    return P.fam == MANUFACTURED ? vec(P.Hm(ix, ir, t)) : vec(P.fh(k, t) * P.K1[k]);
  }
  SU_vector GammaRho(unsigned int ix, unsigned int ir, double t) const override {
    mon.term(1, ix, ir, t);
    if (ix >= nx || ir >= nrhos || !(mask & NONCOH)) return poison();
    size_t k = P.kr(ix, ir);
    return P.fam == MANUFACTURED ? vec(P.Gm(ix, ir, t)) : vec(P.fg(k, t) * P.K2[k]);
  }
  SU_vector InteractionsRho(unsigned int ix, unsigned int ir, double t) const override {
    mon.term(2, ix, ir, t);
    if (ix >= nx || ir >= nrhos || !(mask & OTHER)) return poison();
    size_t k = P.kr(ix, ir);
    if (P.fam == COMMUTING) return vec(P.S[k]);
    // manufactured source: d rho*/dt + i[H,rho*] (if coherent) + {G,rho*} (if non coherent)
    DM p = P.rho_star(ix, ir, t), src = P.drho_star(ix, ir, t);
    if (mask & COH) { DM h = P.Hm(ix, ir, t); src = src + cd(0, 1) * (h * p - p * h); }
    if (mask & NONCOH) { DM g = P.Gm(ix, ir, t); src = src + (g * p + p * g); }
    if (P.kappa != 0) {
      unsigned jx = (ix + 1) % nx;
      DM cur = fm::from_comp((int)nsun, estate[jx].rho[ir].GetComponents());
      src = src + P.kappa * (P.rho_star(jx, ir, t) - cur);
    }
    return vec(src);
  }
  double GammaScalar(unsigned int ix, unsigned int is, double t) const override {
    mon.term(3, ix, is, t);
    if (ix >= nx || is >= nscalars || !(mask & GSCAL)) return std::nan("");
    return P.gam(ix, is, t);
  }
  double InteractionsScalar(unsigned int ix, unsigned int is, double t) const override {
    mon.term(4, ix, is, t);
    if (ix >= nx || is >= nscalars || !(mask & OSCAL)) return std::nan("");
    if (!P.scalar_manufactured) return P.q[P.ks(ix, is)];
    double coupled = 0;
    if (P.kappa != 0) { unsigned jx = (ix + 1) % nx; coupled = P.kappa * (P.s_star(jx, is, t) - estate[jx].scalar[is]); }
    return P.ds_star(ix, is, t) + ((mask & GSCAL) ? P.gam(ix, is, t) * P.s_star(ix, is, t) : 0.0) + coupled;
  }
  void PreDerive(double t) override { mon.prederive(t); }
};

struct StepMode { const gsl_odeiv2_step_type* type; const char* name; bool adaptive; int order; };
inline std::vector<StepMode> step_modes() {
  return {
    {gsl_odeiv2_step_rk2, "rk2/adaptive", true, 2}, {gsl_odeiv2_step_rk4, "rk4/adaptive", true, 4}, {gsl_odeiv2_step_rkf45, "rkf45/adaptive", true, 5},
    {gsl_odeiv2_step_rkck, "rkck/adaptive", true, 5}, {gsl_odeiv2_step_rk8pd, "rk8pd/adaptive", true, 8}, {gsl_odeiv2_step_msadams, "msadams/adaptive", true, 4},
    {gsl_odeiv2_step_rk2, "rk2/fixed", false, 2}, {gsl_odeiv2_step_rk4, "rk4/fixed", false, 4}, {gsl_odeiv2_step_rkf45, "rkf45/fixed", false, 5},
    {gsl_odeiv2_step_rkck, "rkck/fixed", false, 5}, {gsl_odeiv2_step_rk8pd, "rk8pd/fixed", false, 8},
  };
}
}  // namespace sv

void run_C04(vh::Ctx&); void run_C05(vh::Ctx&); void run_C10(vh::Ctx&); void run_C17(vh::Ctx&);
