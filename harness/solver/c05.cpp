// C05 - expectation values are Schroedinger-picture traces; x-interpolation is linear
#include "solver/problem.h"
#include <memory>
#include <cfloat>
using namespace sv;

namespace {
const double K = 16;

struct Setup {
  std::unique_ptr<Problem> p;
  Params P;
  std::vector<double> xs;
  std::string what;
};
std::vector<double> levels(const Params& P, double x, unsigned ir) {
  std::vector<double> h = P.h0_comp(x, ir);
  h[0] = 0;  // the identity component does not enter level differences
  DM m = fm::from_comp((int)P.d, h);
  std::vector<double> w(P.d);
  for (unsigned i = 0; i < P.d; i++) w[i] = m(i, i).real();
  return w;
}
double Wscale(const Params& P, double x, unsigned ir) { auto h = P.h0_comp(x, ir); double w = 0; for (unsigned l = 1; l < P.d; l++) w += 2 * std::fabs(h[P.d * l + l]); return w; }
// Tr(rho_S O) with rho_S = exp(-i H0 tau) rho exp(i H0 tau):  sum_ij rho_ij e^{-i(h_i-h_j)tau} O_ji  (long double)
double expect(const Params& P, const std::vector<double>& rho_comp, const std::vector<double>& op_comp, double x, unsigned ir, double tau) {
  ref::Mat R = ref::from_components((int)P.d, rho_comp), O = ref::from_components((int)P.d, op_comp);
  auto w = levels(P, x, ir);
  ref::cx s = 0;
  for (unsigned i = 0; i < P.d; i++) for (unsigned j = 0; j < P.d; j++) {
    ref::real ph = -((ref::real)w[i] - w[j]) * (ref::real)tau;
    s += R(i, j) * ref::cx(std::cos(ph), std::sin(ph)) * O(j, i);
  }
  return (double)s.real();
}
void make_grid(vh::Rng& r, Problem& p, unsigned nx, std::vector<double>& xs, std::string& gname) {
  int kind = r.pick(3);
  if (kind == 0) { double a = r.uni(-2, 2), b = a + r.logu(0.1, 10); p.Set_xrange(a, b, "linear"); gname = "linear"; }
  else if (kind == 1) { double a = r.logu(1e-3, 10), b = a * r.logu(1.5, 1e3); p.Set_xrange(a, b, "log"); gname = "log"; }
  else {
    std::vector<double> u(nx); double v = r.uni(-1, 1);
    for (unsigned k = 0; k < nx; k++) { u[k] = v; v += r.coin(0.4) ? r.logu(1e-6, 1e-3) : r.uni(0.1, 1.5); }
    p.Set_xrange(u); gname = "user-clustered";
  }
  xs = p.Get_xrange();
}
}  // namespace

void run_C05(vh::Ctx& c) {
  squids::verif::event_hook() = on_event;
  auto modes = step_modes();
  long N = c.n(1200, 40000);
  // a second solver of another dimension stays alive on this thread and is queried in between, so
  // that the thread-local scratch vectors keep being resized
  std::unique_ptr<Problem> other;
  Params otherP;
  vh::run_cases(c, 5, N, [&](long idx, vh::Rng& r) {
    unsigned d = 2 + (unsigned)(idx % 5), nx = 2 + r.pick(5), nr = 1 + r.pick(3), ns = r.pick(2);
    double ti = r.coin(0.3) ? 0.0 : r.normal() * (r.coin(0.2) ? 100 : 1);
    Params P;
    P.generate(r, nx, d, nr, ns, ti, COMMUTING, false, true, 0.5);
    std::unique_ptr<Problem> p(new Problem(P));
    std::vector<double> xs; std::string gname;
    make_grid(r, *p, nx, xs, gname);
    // H0 magnitude: sometimes large so that "H0 at the node" vs "H0 at x" and t vs t-t_ini differ visibly
    for (unsigned ir = 0; ir < nr; ir++) for (auto& v : P.h0b[ir]) v *= r.coin(0.3) ? 5 : 1;
    p->P = P;
    // state and history: tau is produced by real calls
    for (unsigned ix = 0; ix < nx; ix++) for (unsigned ir = 0; ir < nr; ir++) p->set_rho(ix, ir, fm::rand_herm(r, d));
    std::string hist;
    double tsum = ti;
    int nops = r.pick(4);
    for (int o = 0; o < nops; o++) {
      int k = r.pick(4);
      if (k == 0) { double dt = r.coin(0.2) ? 0 : r.logu(1e-3, 1e3); p->set_mask(0); p->Evolve(dt); tsum += dt; hist += vh::fmt(" Evolve-no-numerics(%.4g)", dt); }
      else if (k == 1) { double dt = r.uni(0.01, 0.5); p->set_mask(COH | NONCOH | (ns ? GSCAL : 0)); p->Set_rel_error(1e-8); p->Set_abs_error(1e-8); p->Set_h(1e-3); p->Evolve(dt); tsum += dt; hist += vh::fmt(" Evolve(%.4g)", dt); }
      else if (k == 2) {
        ti = r.normal(); P.ti = ti; p->reinit(P); p->Set_xrange(xs);
        for (unsigned ix = 0; ix < nx; ix++) for (unsigned ir = 0; ir < nr; ir++) p->set_rho(ix, ir, fm::rand_herm(r, d));
        tsum = ti; hist += vh::fmt(" ini(t=%.4g)", ti);
      } else { std::unique_ptr<Problem> q(new Problem(std::move(*p))); p = std::move(q); hist += " move"; }
    }
    double tau = p->Get_t() - p->Get_t_initial();
    std::string what = vh::fmt("d=%u nx=%u nrhos=%u grid=%s [%.6g,%.6g] t_ini=%.6g tau=%.6g history:%s", d, nx, nr, gname.c_str(), xs.front(), xs.back(), ti, tau, hist.c_str());
    c.desc(what);
    c.count("grid." + gname); c.count(vh::fmt("dim.%u", d)); c.count(vh::fmt("history_ops.%d", nops));
    c.nontrivial(vh::fnv_str(what));
    if (!(std::fabs(tau - (tsum - ti)) <= 1e-9 * (1 + std::fabs(tsum) + std::fabs(ti)))) c.violation("C05:clock:t-minus-t_initial-differs-from-the-history", what + vh::fmt(" Get_t()-Get_t_initial()=%.17g, the history adds up to %.17g", tau, tsum - ti));
    // the stored states as they are now (whatever the history did to them)
    std::vector<std::vector<double>> st((size_t)nx * nr);
    for (unsigned ix = 0; ix < nx; ix++) for (unsigned ir = 0; ir < nr; ir++) st[(size_t)ix * nr + ir] = p->rho(ix, ir).GetComponents();

    auto opvec = [&](vh::Rng& rr) { DM o = fm::rand_herm(rr, d); if (rr.coin(0.2)) { o = DM(d); o(rr.pick(d), rr.pick(d)) = 1; o = 0.5 * (o + fm::dag(o)); } return fm::to_comp(o); };
    squids::SQuIDS::expectationValueDBuffer ubuf(r.coin() ? d : (d == 6 ? 2 : d + 1));  // a user buffer, sometimes of another dimension
    auto touch_other = [&]() {
      if (!other || r.coin(0.1)) {
        unsigned od = 2 + r.pick(5);
        otherP.generate(r, 2, od, 1, 0, 0.0, COMMUTING, false, true, 0.5);
        other.reset(new Problem(otherP));
        other->Set_xrange(0.0, 1.0, "linear");
        other->set_rho(0, 0, fm::rand_herm(r, od)); other->set_rho(1, 0, fm::rand_herm(r, od));
      }
      SU_vector oo(fm::to_comp(fm::rand_herm(r, other->D())));
      (void)other->GetExpectationValueD(oo, 0, r.u01());
      std::vector<bool> av(other->D() * (other->D() - 1) / 2);
      (void)other->GetExpectationValueD(oo, 0, r.u01(), 1e300, av);
    };

    // ---- node-indexed form at every node
    for (unsigned ix = 0; ix < nx; ix++) {
      unsigned ir = r.pick(nr);
      auto oc = opvec(r);
      SU_vector O(oc);
      double got = p->GetExpectationValue(O, ir, ix);
      double want = expect(P, st[(size_t)ix * nr + ir], oc, xs[ix], ir, tau);
      double tol = K * EPS * d * d * 4 * (1 + Wscale(P, xs[ix], ir) * std::fabs(tau));
      c.eval(); c.count("query.node_form");
      c.worst("node.err_over_tol", std::fabs(got - want) / tol);
      if (tol < 1e-3 && !(std::fabs(got - want) <= tol)) c.violation("C05:node-form:wrong-value", what + vh::fmt(": node %u matrix %u got %.17g expected %.17g", ix, ir, got, want));
      std::vector<bool> av(d * (d - 1) / 2, true);
      double gotav = p->GetExpectationValue(O, ir, ix, 1e300, av);
      c.eval();
      if (tol < 1e-3 && !(std::fabs(gotav - got) <= tol)) c.violation("C05:node-form:unreachable-scale-differs", what + vh::fmt(": %.17g vs %.17g", gotav, got));
      for (size_t q = 0; q < av.size(); q++) if (av[q]) { c.violation("C05:node-form:unreachable-scale-flags-a-pair", what); break; }
    }
    // ---- interpolated forms on a sweep of x
    std::vector<double> qs;
    for (unsigned k = 0; k < nx; k++) {
      qs.push_back(xs[k]);
      if (k + 1 < nx) { qs.push_back(xs[k] + (xs[k + 1] - xs[k]) / 2); qs.push_back(std::nextafter(xs[k], INFINITY)); qs.push_back(xs[k] + (xs[k + 1] - xs[k]) * r.u01()); }
      if (k > 0) qs.push_back(std::nextafter(xs[k], -INFINITY));
    }
    for (double x : qs) {
      unsigned ir = r.pick(nr);
      auto oc = opvec(r);
      SU_vector O(oc);
      unsigned lo = 0; while (lo + 2 < nx && xs[lo + 1] < x) lo++;
      ref::real f2 = ((ref::real)x - xs[lo]) / ((ref::real)xs[lo + 1] - xs[lo]), f1 = 1 - f2;
      const auto& s0 = st[(size_t)lo * nr + ir]; const auto& s1 = st[(size_t)(lo + 1) * nr + ir];
      std::vector<double> mix(d * d);
      for (unsigned k = 0; k < d * d; k++) mix[k] = (double)(f1 * s0[k] + f2 * s1[k]);
      double want = expect(P, mix, oc, x, ir, tau);
      double tol = K * EPS * d * d * 4 * (1 + Wscale(P, x, ir) * std::fabs(tau));
      bool judge = tol < 1e-3;
      if (r.coin(0.3)) touch_other();
      double g[4]; const char* names[4] = {"D", "D-with-buffer", "D-averaged", "D-averaged-with-buffer"};
      std::vector<bool> av(d * (d - 1) / 2, true), av2(d * (d - 1) / 2, true);
      try {
        g[0] = p->GetExpectationValueD(O, ir, x);
        g[1] = p->GetExpectationValueD(O, ir, x, ubuf);
        g[2] = p->GetExpectationValueD(O, ir, x, 1e300, av);
        g[3] = p->GetExpectationValueD(O, ir, x, ubuf, 1e300, av2);
      } catch (std::exception& e) { c.eval(); c.violation("C05:interpolated:inside-rejected", what + vh::fmt(": x=%.17g threw %s", x, e.what())); continue; }
      c.eval(4); c.count("query.interpolated", 4);
      for (int k = 0; k < 4; k++) {
        c.worst("interp.err_over_tol", std::fabs(g[k] - want) / tol);
        if (judge && !(std::fabs(g[k] - want) <= tol)) { c.violation(std::string("C05:interpolated:wrong-value:") + names[k], what + vh::fmt(": x=%.17g matrix %u got %.17g expected %.17g (bracket %u, weight %.6g)", x, ir, g[k], want, lo, (double)f2)); break; }
      }
      for (size_t q = 0; q < av.size(); q++) if (av[q] || av2[q]) { c.violation("C05:interpolated:unreachable-scale-flags-a-pair", what); break; }
      // the interpolated state itself
      SU_vector is;
      try { is = p->GetIntermediateState(ir, x); }
      catch (std::exception& e) { c.eval(); c.violation("C05:intermediate-state:inside-rejected", what + vh::fmt(": x=%.17g threw %s", x, e.what())); continue; }
      c.eval(); c.count("query.intermediate_state");
      for (unsigned k = 0; k < d * d; k++) if (!(std::fabs(is[k] - mix[k]) <= 16 * EPS * (std::fabs(s0[k]) + std::fabs(s1[k])))) { c.violation("C05:intermediate-state:wrong-value", what + vh::fmt(": x=%.17g component %u got %.17g expected %.17g", x, k, is[k], mix[k])); break; }
      // agreement with the node-indexed form at nodes
      for (unsigned k = 0; k < nx; k++) if (x == xs[k]) {
        double nodev = p->GetExpectationValue(O, ir, k);
        c.count("query.node_agreement");
        if (judge && !(std::fabs(nodev - g[0]) <= 2 * tol)) c.violation("C05:interpolated:disagrees-with-node-form-at-node", what + vh::fmt(": node %u: %.17g vs %.17g", k, g[0], nodev));
      }
    }
    // ---- outside the node range: an error, never an answer; the object stays usable
    {
      double a = xs.front(), b = xs.back(), w = b - a;
      double outs[] = {std::nextafter(a, -INFINITY), a - 1e-6 * w, a - w, a - 1e6 * (w + std::fabs(a) + 1), -INFINITY, -DBL_MAX,
                       std::nextafter(b, INFINITY), b + 1e-6 * w, b + w, b + 1e6 * (w + std::fabs(b) + 1), INFINITY, DBL_MAX};
      auto oc = opvec(r); SU_vector O(oc);
      for (int q = 0; q < 12; q++) {
        double x = outs[q]; bool below = q < 6;
        std::vector<bool> av(d * (d - 1) / 2);
        for (int form = 0; form < 5; form++) {
          bool threw = false; double val = 0;
          try {
            switch (form) {
              case 0: val = p->GetExpectationValueD(O, 0, x); break;
              case 1: val = p->GetExpectationValueD(O, 0, x, ubuf); break;
              case 2: val = p->GetExpectationValueD(O, 0, x, 1e300, av); break;
              case 3: val = p->GetExpectationValueD(O, 0, x, ubuf, 1e300, av); break;
              default: { SU_vector s = p->GetIntermediateState(0, x); val = s[0]; }
            }
          } catch (std::exception&) { threw = true; }
          c.eval(); c.count(below ? "query.outside_below" : "query.outside_above");
          static const char* fn[5] = {"GetExpectationValueD", "GetExpectationValueD(buffer)", "GetExpectationValueD(scale)", "GetExpectationValueD(buffer,scale)", "GetIntermediateState"};
          if (!threw) c.violation(vh::fmt("C05:outside-range:%s:answered:%s", below ? "below" : "above", fn[form]), what + vh::fmt(": x=%.17g is outside [%.17g,%.17g] but %s returned %.6g", x, a, b, fn[form], val));
        }
      }
      // still usable
      double again = p->GetExpectationValueD(O, 0, a);
      double want = expect(P, st[0], oc, a, 0, tau);
      double tol = K * EPS * d * d * 4 * (1 + Wscale(P, a, 0) * std::fabs(tau));
      if (tol < 1e-3 && !(std::fabs(again - want) <= tol)) c.violation("C05:object-unusable-after-rejected-query", what);
    }
    if (idx < 5) c.sample(what);
  });
}
