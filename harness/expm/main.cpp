// h_expm: C07 - the Pade matrix exponential is accurate for every square complex matrix
#include <SQuIDS/SUNalg.h>
#include <SQuIDS/detail/MatrixExp.h>
#include <SQuIDS/detail/VerifHooks.h>
#include "common/vh.h"
#include "common/ref.h"
#include "algebra/alg.h"

using namespace alg;
using squids::math_detail::matrix_exponential;

namespace {
const double K = 256;

// ---- H4 events: which Pade branch answered, how many squarings
struct LastEvent { int branch = -1; int s = 0; long n = 0; };
thread_local LastEvent last;
void on_event(int kind, double a, double b) {
  if (kind == squids::verif::EV_EXPM_BRANCH) { last.branch = (int)a; last.s = (int)b; last.n++; }
}

enum Fam { ANTIHERM, HERM, NORMAL, DENSE_C, UPPER, NILPOTENT, RANKONE, BLOCKDIAG, DIAGPLUS, DIAG, REALROT, LOWER, LOWER_NILPOTENT, SINGLE_OFFDIAG, BIDIAG, NFAM };
const char* famname[] = {"anti-hermitian", "hermitian", "normal", "dense", "upper-triangular", "nilpotent", "rank-one", "block-diagonal", "diagonal+small", "diagonal", "real-rotation",
                         "lower-triangular", "strictly-lower", "diagonal+one-entry", "bidiagonal"};

ref::Mat rand_herm(Rng& r, int n) {
  ref::Mat a(n);
  for (int i = 0; i < n; i++) { a(i, i) = r.normal(); for (int j = i + 1; j < n; j++) { a(i, j) = ref::cx(r.normal(), r.normal()); a(j, i) = std::conj(a(i, j)); } }
  return a;
}
// returns a matrix of the family with 1-norm == target (after rounding to double)
ref::Mat gen_matrix(Rng& r, int n, int fam, double target) {
  ref::Mat a(n);
  switch (fam) {
    case ANTIHERM: a = ref::cx(0, 1) * rand_herm(r, n); break;
    case HERM: a = rand_herm(r, n); break;
    case NORMAL: {
      ref::Mat u = random_unitary(r, n), dg(n);
      for (int i = 0; i < n; i++) dg(i, i) = ref::cx(r.normal() * 0.02, r.normal());  // mostly imaginary spectrum: real part stays small after scaling
      a = u * dg * ref::dag(u);
    } break;
    case DENSE_C: for (auto& x : a.a) x = ref::cx(r.normal(), r.normal()); break;
    case UPPER: for (int i = 0; i < n; i++) for (int j = i; j < n; j++) a(i, j) = ref::cx(r.normal(), r.normal()); break;
    case NILPOTENT: for (int i = 0; i < n; i++) for (int j = i + 1; j < n; j++) a(i, j) = ref::cx(r.normal(), r.normal()); break;
    case RANKONE: { std::vector<ref::cx> u(n), v(n); for (auto& x : u) x = ref::cx(r.normal(), r.normal()); for (auto& x : v) x = ref::cx(r.normal(), r.normal()); for (int i = 0; i < n; i++) for (int j = 0; j < n; j++) a(i, j) = u[i] * v[j]; } break;
    case BLOCKDIAG: {
      int k = 1 + r.pick(n - 1);
      for (int i = 0; i < n; i++) for (int j = 0; j < n; j++) if ((i < k) == (j < k)) a(i, j) = ref::cx(r.normal(), r.normal());
      if (r.coin()) { ref::Mat h = ref::real(0.5) * (a + ref::dag(a)); a = ref::cx(0, 1) * h; }
    } break;
    case DIAGPLUS: for (int i = 0; i < n; i++) for (int j = 0; j < n; j++) a(i, j) = ref::cx(r.normal(), r.normal()) * (ref::real)(i == j ? 1.0 : 1e-3); break;
    case DIAG: for (int i = 0; i < n; i++) a(i, i) = ref::cx(r.normal() * 0.1, r.normal()); break;
    case REALROT: for (int i = 0; i < n; i++) for (int j = i + 1; j < n; j++) { double x = r.normal(); a(i, j) = x; a(j, i) = -x; } break;
    case LOWER: for (int i = 0; i < n; i++) for (int j = 0; j <= i; j++) a(i, j) = ref::cx(r.normal(), r.normal()); break;
    case LOWER_NILPOTENT: for (int i = 0; i < n; i++) for (int j = 0; j < i; j++) a(i, j) = ref::cx(r.normal(), r.normal()); break;
    case SINGLE_OFFDIAG: {  // a diagonal matrix with exactly one off-diagonal entry, anywhere
      for (int i = 0; i < n; i++) a(i, i) = ref::cx(r.normal() * 0.1, r.normal());
      int i = r.pick(n), j = r.pick(n - 1); if (j >= i) j++;
      a(i, j) = r.coin() ? ref::cx(r.normal(), 0) : (r.coin() ? ref::cx(0, r.normal()) : ref::cx(r.normal(), r.normal()));
    } break;
    case BIDIAG: { bool low = r.coin(); for (int i = 0; i < n; i++) { a(i, i) = ref::cx(r.normal() * 0.1, r.normal()); if (i + 1 < n) { if (low) a(i + 1, i) = ref::cx(r.normal(), r.normal()); else a(i, i + 1) = ref::cx(r.normal(), r.normal()); } } } break;
  }
  ref::real nn = ref::norm1(a);
  if (nn > 0) for (auto& x : a.a) x *= (ref::real)target / nn;
  return rounded(a);
}
double norm_limit(int fam) {
  switch (fam) { case ANTIHERM: case REALROT: return 1e3; case NORMAL: case DIAG: return 1e3; case HERM: return 30; case SINGLE_OFFDIAG: case BIDIAG: return 200; default: return 50; }
}
double gen_norm(Rng& r, int fam) {
  static const double theta[] = {1.495585217958292e-002, 2.539398330063230e-001, 9.504178996162932e-001, 2.097847961257068, 4.25, 8.5, 17, 34, 68, 136, 272, 544};
  double lim = norm_limit(fam);
  int m = r.pick(10);
  if (m < 4) { double t = theta[r.pick(12)] * r.uni(0.8, 1.25); return std::min(t, lim); }   // straddle every threshold
  if (m < 6) return r.uni(1.0, std::min(lim, 8.0));                                            // the degree 7/9 band
  if (m == 6) return r.logu(1e-8, 1e-2);
  return r.logu(1e-3, lim);
}

ref::Mat lib_expm(const ref::Mat& a) {
  int n = a.n;
  GslMat A(a), E(n);
  matrix_exponential(E.p, A.p);
  return from_gsl(E.p);
}

// relative condition number of exp at A in the Frobenius norm: ||L_exp(A)|| ||A||_F / ||exp(A)||_F.
// exact=false: a few power-method steps on L^* L (L^*(W) = L_exp(A^dagger)(W)), times n as safety margin
double cond_exp(const ref::Mat& a, const ref::Mat& ea, Rng& r, bool exact) {
  int n = a.n;
  ref::real Lnorm = 0;
  if (exact) {
    int N = 2 * n * n;
    std::vector<ref::real> Kmat((size_t)N * N);
    for (int cidx = 0; cidx < N; cidx++) {
      ref::Mat e(n);
      e.a[cidx / 2] = (cidx % 2 == 0) ? ref::cx(1, 0) : ref::cx(0, 1);
      ref::Mat l = ref::frechet_exp(a, e);
      for (int q = 0; q < n * n; q++) { Kmat[(size_t)(2 * q) * N + cidx] = l.a[q].real(); Kmat[(size_t)(2 * q + 1) * N + cidx] = l.a[q].imag(); }
    }
    std::vector<ref::real> v(N, 1.0L), w(N), u(N);
    for (int it = 0; it < 60; it++) {
      for (int i = 0; i < N; i++) { ref::real s = 0; for (int j = 0; j < N; j++) s += Kmat[(size_t)i * N + j] * v[j]; w[i] = s; }
      for (int j = 0; j < N; j++) { ref::real s = 0; for (int i = 0; i < N; i++) s += Kmat[(size_t)i * N + j] * w[i]; u[j] = s; }
      ref::real nn = 0; for (auto x : u) nn += x * x; nn = std::sqrt(nn);
      if (nn == 0) break;
      Lnorm = std::sqrt(nn);
      for (int j = 0; j < N; j++) v[j] = u[j] / nn;
    }
    Lnorm *= 1.05L;  // the power iteration approaches the largest singular value from below
  } else {
    ref::Mat e(n), ad = ref::dag(a);
    for (auto& x : e.a) x = ref::cx(r.normal(), r.normal());
    ref::real best = 0;
    for (int it = 0; it < 4; it++) {
      ref::real ne = ref::normF(e);
      if (ne == 0) break;
      for (auto& x : e.a) x /= ne;
      ref::Mat l = ref::frechet_exp(a, e);
      best = std::max(best, ref::normF(l));
      e = ref::frechet_exp(ad, l);
    }
    Lnorm = best * n;
  }
  ref::real nf = ref::normF(ea);
  return (double)(Lnorm * ref::normF(a) / (nf > 0 ? nf : 1));
}

struct Judged { double ratio; double kappa; bool skipped; };

Judged judge(vh::Ctx& c, Rng& r, const ref::Mat& a, int fam, const ref::Mat& got, int branch, int s, bool exact_cond, const std::string& what) {
  int n = a.n;
  Judged j{0, 0, false};
  ref::Mat want = ref::expm(a);
  double na = (double)ref::norm1(a), nw = (double)ref::norm1(want);
  if (!ref::finite(want) || nw > 1e200) { c.count("skipped.reference_overflow"); j.skipped = true; return j; }
  std::string key = vh::fmt("C07:n%d:pade%d:", n, branch);
  if (!ref::finite(got)) { c.violation(key + "non-finite", what); j.ratio = INFINITY; return j; }
  double kexp = cond_exp(a, want, r, exact_cond);
  double kappa = (1.0 + s) * (1.0 + na + kexp);
  j.kappa = kappa;
  if (kappa > 1e6) { c.count("skipped.ill_conditioned"); j.skipped = true; return j; }
  double err = (double)ref::norm1(got - want);
  j.ratio = err / (EPS * kappa * nw);
  c.worst(vh::fmt("ratio.pade%d", branch), j.ratio);
  c.worst(vh::fmt("ratio.%s", famname[fam]), j.ratio);
  if (!(j.ratio <= K)) c.violation(key + "inaccurate", what + vh::fmt(" |err|_1=%.3g |exp|_1=%.3g kappa=%.3g -> err/(eps*kappa*|exp|)=%.3g > %g", err, nw, kappa, j.ratio, K));
  return j;
}

std::string matstr(const ref::Mat& a) {
  std::string s = "[";
  for (int i = 0; i < a.n; i++) for (int j = 0; j < a.n; j++) s += vh::fmt("%s%.17g%+.17gi", (i || j) ? "," : "", (double)a(i, j).real(), (double)a(i, j).imag());
  return s + "]";
}
}  // namespace

int main(int argc, char** argv) {
  vh::Args args = vh::parse_args(argc, argv);
  vh::Ctx c(args);
  if (args.prop != "C07") { fprintf(stderr, "h_expm serves C07 only\n"); return 2; }
  squids::verif::event_hook() = on_event;
  long N = c.n(6000, 200000);
  long NU = c.n(4000, 100000);
  vh::run_cases(c, 7, N + NU, [&](long idx, Rng& r) {
    if (idx < N) {
      int n = 2 + (int)(idx % 5);
      int fam = (int)((idx / 5) % NFAM);
      double target = gen_norm(r, fam);
      ref::Mat a = gen_matrix(r, n, fam, target);
      std::string what = vh::fmt("n=%d family=%s |A|_1=%.6g A=%s", n, famname[fam], (double)ref::norm1(a), matstr(a).c_str());
      c.desc(what);
      c.count(std::string("family.") + famname[fam]); c.count(vh::fmt("n.%d", n));
      c.nontrivial(vh::fnv(a.a.data(), a.a.size() * sizeof(ref::cx), n));
      // history: exponentials of other sizes and norms on this thread before the judged call
      int pre = r.pick(6);
      for (int p = 0; p < pre; p++) { int pn = 2 + r.pick(5); int pf = r.pick(NFAM); try { (void)lib_expm(gen_matrix(r, pn, pf, gen_norm(r, pf))); } catch (std::exception&) { c.count("history.prefix_call_threw"); } }
      c.count(vh::fmt("history.prefix%d", pre));
      last = LastEvent();
      ref::Mat got;
      try { got = lib_expm(a); }
      catch (std::exception& e) { c.eval(); c.violation(vh::fmt("C07:n%d:exception", n), what + " threw: " + e.what()); return; }
      c.eval();
      int branch = last.branch, s = last.s;
      if (last.n != 1) { c.violation("C07:harness:no-branch-event", what); return; }
      c.count(vh::fmt("branch.%d", branch));
      c.count(vh::fmt("squarings.%s", s == 0 ? "0" : s == 1 ? "1" : s == 2 ? "2" : "3plus"));
      c.count(vh::fmt("branch.%d.n%d", branch, n));
      Judged j = judge(c, r, a, fam, got, branch, s, c.thorough() && (idx % 4 == 0), what);
      if (!j.skipped) c.count("judged");
      // same matrix after a different prefix: must agree within the same bound (not bitwise:
      // the norm estimator is randomised and keeps state on the thread)
      if (r.coin(0.5)) {
        int pre2 = 1 + r.pick(4);
        for (int p = 0; p < pre2; p++) { int pn = 2 + r.pick(5); int pf = r.pick(NFAM); try { (void)lib_expm(gen_matrix(r, pn, pf, gen_norm(r, pf))); } catch (std::exception&) { c.count("history.prefix_call_threw"); } }
        last = LastEvent();
        ref::Mat got2;
        try { got2 = lib_expm(a); } catch (std::exception& e) { c.violation(vh::fmt("C07:n%d:exception", n), what + " threw on re-evaluation: " + e.what()); return; }
        c.eval(); c.count("reevaluated_after_other_history");
        if (last.branch != branch || last.s != s) c.count("reevaluation_took_other_branch");
        Judged j2 = judge(c, r, a, fam, got2, last.branch, last.s, false, what + " [re-evaluated after other calls]");
        (void)j2;
      }
      if (idx < 6) c.sample(what.substr(0, 500));
      return;
    }
    // ---- UTransform(V, i*s): exp(-isV) A exp(isV)
    int d = 2 + (int)(idx % 5);
    int vc = pick_cls(r), ac = pick_cls(r);
    Vec v = gen_vec(r, d, vc, 3), a = gen_vec(r, d, ac, 50);
    if (vc == HUGE_ || vc == TINY_) for (auto& x : v) x = std::fabs(x) > 1e3 ? x * 1e-3 : x;
    double nv = (double)ref::norm1(M(d, v));
    double s = r.coin(0.15) ? 0.0 : r.sign() * (nv > 0 ? std::min(gen_norm(r, ANTIHERM) / nv, 1e6) : r.normal());
    std::string what = vh::fmt("UTransform d=%d V[%s]=%s s=%.17g A[%s]=%s", d, cls_name[vc], vh::vecstr(v).c_str(), s, cls_name[ac], vh::vecstr(a).c_str());
    c.desc(what);
    c.count(vh::fmt("utransform.d%d", d));
    c.nontrivial(vh::fnv_d(v.data(), v.size(), vh::fnv_d(a.data(), a.size(), vh::fnv_d(&s, 1))));
    SU_vector A = make(a), V = make(v);
    last = LastEvent();
    SU_vector R(d);
    try { R = A.UTransform(V, gsl_complex_rect(0, s)); }
    catch (std::exception& e) { c.eval(); c.violation(vh::fmt("C07:UTransform:d%d:exception", d), what + " threw: " + e.what()); return; }
    c.eval();
    if (last.n >= 1) c.count(vh::fmt("utransform.branch.%d", last.branch));
    ref::Mat MV = M(d, v), MA = M(d, a);
    ref::Mat U = ref::expm(ref::cx(0, s) * MV);  // exp(isV)
    double ma = maxabs(a);
    double tol = K * EPS * (1 + last.s) * (1 + 2 * std::fabs(s) * nv) * d * d * ma;
    if (tol > 0.01 * ma) { c.count("skipped.utransform_unresolvable"); return; }
    int w = -1;
    double e = comp_err(R, ref::dag(U) * MA * U, &w);
    c.worst("utransform.err_over_tol", tol > 0 ? e / tol : (e > 0 ? 1e300 : 0));
    if (!(e <= tol)) c.violation(vh::fmt("C07:UTransform:d%d:wrong-value", d), what + vh::fmt(" component %d off by %.3g (tol %.3g)", w, e, tol));
    // norm preserving
    double n0 = A * A, n1 = R * R;
    if (!(std::fabs(n0 - n1) <= 4 * tol * d * d * (ma + 1e-300))) c.violation(vh::fmt("C07:UTransform:d%d:not-norm-preserving", d), what + vh::fmt(" Tr(A^2)=%.17g -> %.17g", n0, n1));
    // inverted by s -> -s
    try {
      SU_vector B = R.UTransform(V, gsl_complex_rect(0, -s));
      c.eval();
      for (int k = 0; k < d * d; k++) if (!(std::fabs(B[k] - a[k]) <= 3 * tol)) { c.violation(vh::fmt("C07:UTransform:d%d:not-inverted-by-minus-s", d), what + vh::fmt(" component %d: %.17g -> %.17g", k, a[k], B[k])); break; }
    } catch (std::exception& ex) { c.violation(vh::fmt("C07:UTransform:d%d:exception", d), what + " threw on the way back: " + ex.what()); }
    if (A.GetComponents() != a || V.GetComponents() != v) c.violation("C07:UTransform:operand-modified", what);
    // the transformed vector and the generator on user-supplied storage: the same result.  Not the same bits: the norm
    // estimator inside the exponential draws from a per-thread random stream, so two identical calls may choose different
    // scalings and differ in the last places; both are within the allowance around the exact value.
    try {
      alg::ExtVec EA(a, d), EV(v, d);
      SU_vector R2 = EA.v.UTransform(V, gsl_complex_rect(0, s)), R3 = A.UTransform(EV.v, gsl_complex_rect(0, s));
      c.eval(2); c.count("utransform.user_storage_operands", 2);
      bool okst = R2.Dim() == R.Dim() && R3.Dim() == R.Dim();
      for (int k = 0; okst && k < d * d; k++) if (!(std::fabs(R2[k] - R[k]) <= 2 * tol) || !(std::fabs(R3[k] - R[k]) <= 2 * tol)) okst = false;
      if (!okst) c.violation(vh::fmt("C07:UTransform:d%d:differs-for-operands-on-user-storage", d), what);
      if (!EA.bound() || !EV.bound() || EA.image() != a || EV.image() != v) c.violation("C07:UTransform:operand-modified", what + " [user storage]");
    } catch (std::exception& ex) { c.violation(vh::fmt("C07:UTransform:d%d:exception", d), what + " threw for operands on user storage: " + ex.what()); }
    // the generator may be the transformed vector itself: exp(-isA) A exp(isA) = A
    if (r.coin(0.2)) {
      double na = (double)ref::norm1(MA);
      double s2 = na > 0 ? std::min(3.0 / na, 1e3) * r.sign() : 0.5;
      try {
        SU_vector Rs = A.UTransform(A, gsl_complex_rect(0, s2));
        c.eval(); c.count("utransform.generator_is_the_vector");
        double tl = K * EPS * 8 * (1 + 2 * std::fabs(s2) * na) * d * d * ma;
        for (int k = 0; k < d * d; k++) if (!(std::fabs(Rs[k] - a[k]) <= tl)) { c.violation(vh::fmt("C07:UTransform:d%d:wrong-value-when-generator-is-the-vector", d), what + vh::fmt(" s=%.17g component %d: %.17g -> %.17g", s2, k, a[k], Rs[k])); break; }
      } catch (std::exception& ex) { c.violation(vh::fmt("C07:UTransform:d%d:exception", d), what + " threw with V==A: " + ex.what()); }
    }
    if (idx - N < 3) c.sample(what.substr(0, 400));
  });
  c.write();
  return 0;
}
