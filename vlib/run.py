"""Shard runner, sanitizer-report parsing, verdicts, evidence and known-findings matching."""
import json, os, re, subprocess, sys, time, shutil, hashlib, signal, concurrent.futures as cf
from . import build as B

VERIF = B.VERIF
RUN = os.path.join(VERIF, ".run")
# where evidence and replay files go; overridden only when the checks are pointed at a scratch copy of the
# repository (VERIF_REPO) to try a seeded fault, so that the committed evidence is never overwritten by such a run
OUT = os.environ.get("VERIF_OUT", VERIF)

SAN_ENV = {
    "ASAN_OPTIONS": "abort_on_error=0:exitcode=99:detect_leaks=1:allocator_may_return_null=0:detect_stack_use_after_return=0:handle_abort=1:new_delete_type_mismatch=1",
    "UBSAN_OPTIONS": "print_stacktrace=1:halt_on_error=1:exitcode=98",
    "LSAN_OPTIONS": "exitcode=97",
    "TSAN_OPTIONS": "halt_on_error=0:second_deadlock_stack=1:exitcode=66:history_size=4",
}


def tsan_reports(stderr):
    """Split ThreadSanitizer output into reports; key = kind + first library frame of each stack
    (line numbers stripped), so that the same race seen through different runs de-duplicates."""
    out = []
    for blk in stderr.split("WARNING: ThreadSanitizer: ")[1:]:
        kind = blk.split(" (", 1)[0].split("\n", 1)[0].strip().replace(" ", "-")
        stacks = re.split(r"\n\s*\n", blk)
        tops = []
        for st in stacks:
            fr = [re.sub(r"\(.*", "", f) for f in re.findall(r"#\d+ (\S+)", st)]
            lib = [f for f in fr if "squids::" in f]
            if lib:
                tops.append(lib[0])
        if tops:
            out.append(("san:ThreadSanitizer:%s:%s" % (kind, "|".join(sorted(set(tops))[:2])), blk[:3000]))
        else:
            out.append(("tsan:report-without-library-frame:%s" % kind, blk[:3000]))
    return out


def load_known():
    p = os.path.join(VERIF, "known_findings.json")
    if not os.path.exists(p):
        return []
    return json.load(open(p)).get("findings", [])


_FRAME = re.compile(r"#\d+ 0x[0-9a-f]+ in (\S+)")


def sanitizer_key(stderr):
    """Map a sanitizer report to a stable key: tool:kind:first squids frame (no line numbers)."""
    kind = None
    m = re.search(r"ERROR: (AddressSanitizer|LeakSanitizer|ThreadSanitizer): ([a-zA-Z\-_ ]+?)( on | \(|:|\n|$)", stderr)
    if m:
        kind = (m.group(1) + ":" + m.group(2).strip().replace(" ", "-"))
    else:
        m = re.search(r"runtime error: ([^\n]{0,80})", stderr)
        if m:
            t = m.group(1)
            t = re.sub(r"0x[0-9a-f]+", "ADDR", t)
            t = re.sub(r"-?\d+(\.\d+)?(e[+-]?\d+)?", "N", t)
            kind = "UBSan:" + t.strip().replace(" ", "-")[:60]
    if kind is None:
        return None
    fn = None
    for f in _FRAME.findall(stderr):
        if "squids" in f:
            fn = re.sub(r"\(.*", "", f)
            break
    return "san:%s:%s" % (kind, fn or "?")


def _run_one(cmd, env, timeout, stderr_path):
    t0 = time.time()
    with open(stderr_path, "wb") as ef:
        p = subprocess.Popen(cmd, stdout=ef, stderr=subprocess.STDOUT, env=env, start_new_session=True)
        try:
            rc = p.wait(timeout=timeout)
            to = False
        except subprocess.TimeoutExpired:
            try:
                os.killpg(p.pid, signal.SIGKILL)
            except OSError:
                pass
            p.wait()
            rc, to = -9, True
    return rc, to, time.time() - t0


def _read_progress(path):
    try:
        b = open(path, "rb").read()
        idx = int.from_bytes(b[0:8], "little", signed=True)
        phase = int.from_bytes(b[8:16], "little", signed=True)
        desc = b[16:].split(b"\0", 1)[0].decode("utf8", "replace")
        return idx, phase, desc
    except Exception:
        return -1, 0, ""


def run_shard(binary, prop, tier, seed, shard, nshards, scale, variant, workdir, timeout, extra_env=None, extra_args=()):
    """Runs one shard to completion, restarting after the crashing case when a sanitizer
    (or a signal) kills it, so that one defect does not mask the rest."""
    env = dict(os.environ)
    env.update(SAN_ENV)
    if extra_env:
        env.update(extra_env)
    results, crashes = [], []
    start, restarts = 0, 0
    hung_at = None
    while True:
        tag = "%s-%s-%d-%d" % (prop, variant, shard, restarts)
        out = os.path.join(workdir, tag + ".json")
        prog = os.path.join(workdir, tag + ".prog")
        err = os.path.join(workdir, tag + ".err")
        cmd = [binary, "--prop", prop, "--tier", tier, "--seed", str(seed), "--shard", "%d/%d" % (shard, nshards),
               "--scale", str(scale), "--variant", variant, "--out", out, "--progress", prog, "--start", str(start)] + list(extra_args)
        rc, timed_out, wall = _run_one(cmd, env, timeout, err)
        if rc == 0 and os.path.exists(out):
            results.append(json.load(open(out)))
            break
        stderr = open(err, "r", errors="replace").read()
        idx, phase, desc = _read_progress(prog)
        # race reports do not stop the run (halt_on_error=0): the result file is complete
        if os.path.exists(out) and "ThreadSanitizer" in stderr:
            results.append(json.load(open(out)))
            seen = set()
            for key, blk in tsan_reports(stderr):
                if key in seen:
                    continue
                seen.add(key)
                crashes.append(dict(key=key, idx=-1, desc="ThreadSanitizer report", detail=blk, variant=variant))
            break
        # a leak report at exit comes after the result file was written
        if os.path.exists(out) and "LeakSanitizer" in stderr:
            results.append(json.load(open(out)))
            crashes.append(dict(key=sanitizer_key(stderr) or "san:LeakSanitizer:?", idx=-1, desc="at process exit", detail=stderr[-3000:], variant=variant))
            break
        # the segment died before writing its result file: recover the violations it had already reported
        for m in re.finditer(r"^VIOLATION-DETAIL key=(\S+) case=(-?\d+): ([^\n]*)$", stderr, re.M):
            crashes.append(dict(key=m.group(1), idx=int(m.group(2)), desc=m.group(3)[:300], detail=m.group(3), variant=variant, recovered=True))
        if timed_out and hung_at != idx and idx >= 0:
            # a watchdog expiry is inconclusive: re-run that case once before reporting a hang
            hung_at = idx
            start = idx
            restarts += 1
            continue
        if timed_out:
            # confirmed hang: report it and stop this shard (every further hang would cost two watchdog periods)
            crashes.append(dict(key="hang:%s" % prop, idx=idx, desc=desc, detail="watchdog %ds expired twice on this case; the rest of this shard was not run" % timeout, variant=variant, timeout=True))
            break
        if True:
            key = sanitizer_key(stderr)
            if key is None:
                sig = -rc if rc < 0 else rc
                key = "crash:rc%s" % sig
                m = re.search(r"(terminate called after throwing an instance of '[^']+'|gsl: [^\n]+|Assertion[^\n]+)", stderr)
                if m:
                    key += ":" + re.sub(r"[^A-Za-z0-9_:.-]+", "_", m.group(1))[:70]
            crashes.append(dict(key=key, idx=idx, desc=desc, detail=stderr[-3000:], variant=variant))
        if idx < 0:
            crashes[-1]["fatal"] = True  # died outside any case: cannot continue
            break
        if os.path.exists(out):
            os.unlink(out)
        restarts += 1
        if restarts > 60:
            crashes.append(dict(key="harness:too-many-restarts", idx=idx, desc="", detail="", variant=variant, fatal=True))
            break
        # partial counters of the aborted segment are lost; continue after the failing case
        start = idx + 1
    return results, crashes


def run_property(prop, cfg, tier, seed, log):
    """Build, run all variants x shards, merge.  Returns merged dict."""
    t0 = time.time()
    variants = cfg["variants"][tier]
    workdir = os.path.join(RUN, "%s-%d" % (prop, os.getpid()))
    shutil.rmtree(workdir, ignore_errors=True)
    os.makedirs(workdir)
    merged = dict(cases=0, evaluations=0, counters={}, max={}, samples=[], violations=[], violcount={}, distinct=set(), variants=[], harness_errors=[])
    bins = {}
    for v in variants:
        name = v["variant"]
        bins[name] = B.build(cfg["sources"], name, cfg["harness"], extra=cfg.get("extra_flags", ()), with_lib=cfg.get("with_lib", True), log=log)
    jobs = []
    for v in variants:
        for s in range(v["shards"]):
            jobs.append((v, s))
    timeout = cfg.get("timeout", {}).get(tier, 900 if tier == "quick" else 10800)
    with cf.ThreadPoolExecutor(max_workers=cfg.get("parallel", 16)) as ex:
        futs = {}
        for v, s in jobs:
            f = ex.submit(run_shard, bins[v["variant"]], prop, tier, seed, s, v["shards"], v.get("scale", 1.0), v["variant"], workdir, timeout,
                          v.get("env"), v.get("args", ()))
            futs[f] = (v, s)
        for f in cf.as_completed(futs):
            v, s = futs[f]
            results, crashes = f.result()
            for r in results:
                merged["cases"] += r["cases"]
                merged["evaluations"] += r["evaluations"]
                for k, n in r["counters"].items():
                    merged["counters"][k] = merged["counters"].get(k, 0) + n
                for k, x in r["max"].items():
                    merged["max"][k] = max(merged["max"].get(k, 0.0), x)
                for smp in r["samples"]:
                    if len(merged["samples"]) < 8 and smp not in merged["samples"]:
                        merged["samples"].append(smp)
                for k, n in r["violcount"].items():
                    merged["violcount"][k] = merged["violcount"].get(k, 0) + n
                for vi in r["violations"]:
                    vi["variant"] = v["variant"]
                    merged["violations"].append(vi)
                merged["distinct"].update(r["distinct"])
            for c in crashes:
                merged["violcount"][c["key"]] = merged["violcount"].get(c["key"], 0) + 1
                merged["violations"].append(c)
                if c.get("fatal"):
                    merged["harness_errors"].append("%s shard %d: %s" % (v["variant"], s, c["key"]))
    merged["variants"] = [v["variant"] for v in variants]
    merged["wall_s"] = time.time() - t0
    merged["workdir"] = workdir
    return merged


def verdict(prop, cfg, tier, seed, merged, log):
    """Prints KNOWN-FINDING / VIOLATION lines, writes evidence and replay files; returns exit code."""
    known = [k for k in load_known() if k.get("property") == prop and k.get("status") == "known"]
    known_keys = {k["key"]: k for k in known}
    seen_known, new = {}, {}
    for key, n in merged["violcount"].items():
        if key in known_keys:
            seen_known[key] = n
        else:
            new[key] = n
    # hangs are retried once by the caller before they get here
    os.makedirs(os.path.join(OUT, "replays"), exist_ok=True)
    lines = []
    for key in sorted(seen_known):
        lines.append("KNOWN-FINDING: property=%s %s (%s; seen %d times)" % (prop, known_keys[key]["what"], key, seen_known[key]))
    rc = 0
    for key in sorted(new):
        ex = next((v for v in merged["violations"] if v["key"] == key), None)
        rp = os.path.join(OUT, "replays", "%s-%s.json" % (prop, hashlib.sha1(key.encode()).hexdigest()[:10]))
        json.dump(dict(property=prop, key=key, tier=tier, seed=seed, count=new[key],
                       variant=(ex or {}).get("variant"), idx=(ex or {}).get("idx"),
                       desc=(ex or {}).get("desc"), detail=(ex or {}).get("detail"),
                       replay="./check %s --replay %s" % (prop, rp)), open(rp, "w"), indent=1)
        lines.append("VIOLATION property=%s replay=%s" % (prop, rp))
        log("  key=%s count=%d case=%s\n    %s\n    %s" % (key, new[key], (ex or {}).get("idx"), ((ex or {}).get("desc") or "")[:400], ((ex or {}).get("detail") or "")[:1500]))
        rc = 1
    # coverage floors: seeing too little is inconclusive, never "held"
    short = []
    for k, need in cfg.get("floors", {}).get(tier, {}).items():
        have = merged["counters"].get(k, 0)
        if have < need:
            short.append("%s=%d<%d" % (k, have, need))
    if merged["harness_errors"]:
        short.append("harness errors: " + "; ".join(merged["harness_errors"]))
    distinct = len(merged["distinct"])
    ev = dict(property_id=prop, tier=tier, seed=int(seed), level=cfg["level"],
              coverage=dict(evaluations=int(merged["evaluations"]), distinct_nontrivial=int(distinct),
                            rule=cfg["rule"], samples=merged["samples"][:8] or ["(no sample recorded)"],
                            cases=merged["cases"], counters=dict(sorted(merged["counters"].items())),
                            worst_observed=merged["max"], builds=merged["variants"],
                            known_findings_hit=sorted(seen_known), floors_missed=short),
              assumptions=cfg.get("assumptions", []), wall_s=round(merged["wall_s"], 2),
              violations=len(new))
    if cfg.get("exhaustive"):
        ev["coverage"]["exhaustive"] = True
    os.makedirs(os.path.join(OUT, "evidence"), exist_ok=True)
    tmp = os.path.join(OUT, "evidence", "%s.json.tmp%d" % (prop, os.getpid()))
    json.dump(ev, open(tmp, "w"), indent=1)
    os.replace(tmp, os.path.join(OUT, "evidence", "%s.json" % prop))
    for l in lines:
        print(l)
    if rc == 0 and short:
        print("INCONCLUSIVE property=%s: %s" % (prop, "; ".join(short)))
        rc = 2
    print("%s %s tier=%s seed=%s: cases=%d evaluations=%d distinct=%d builds=%s known=%d new=%d wall=%.0fs" %
          ("OK" if rc == 0 else ("FAIL" if rc == 1 else "INCONCLUSIVE"), prop, tier, seed, merged["cases"], merged["evaluations"], distinct,
           ",".join(merged["variants"]), len(seen_known), len(new), merged["wall_s"]))
    if rc == 0:
        shutil.rmtree(merged["workdir"], ignore_errors=True)
    return rc
