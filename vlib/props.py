"""Per-property configuration of the checks: harness, build variants, shards, coverage floors."""

def V(variant, shards, scale=1.0, env=None, args=()):
    return dict(variant=variant, shards=shards, scale=scale, env=env, args=list(args))

ALG = ["algebra/main.cpp"] + ["algebra/c%s.cpp" % n for n in ("01", "02", "03", "06", "11", "12", "13")]

SOLVER = ["solver/main.cpp", "solver/c04.cpp", "solver/c05.cpp", "solver/c10.cpp", "solver/c17.cpp"]

LIFE = ["life/main.cpp", "life/c14.cpp", "life/c16.cpp", "life/interp.cpp", "life/c09_main.cpp", "life/c09_ew.cpp", "life/c09_comm.cpp", "life/c09_evol.cpp", "common/ledger.cpp"]

PROPS = {
    "C01": dict(
        harness="h_algebra", sources=ALG, level="exploration",
        variants=dict(quick=[V("asan", 6, 1.5), V("opt", 4, 3.0)], thorough=[V("asan", 8, 0.5), V("opt", 6), V("optavx", 2)]),
        rule="exhaustive part: every unit generator -> matrix and every matrix unit -> vector for d=2..6 (each slot of the ten generated "
             "basis-change kernels); random part: component vectors / Hermitian matrices drawn from 11 value classes (dense, sparse, single generator, "
             "diagonal, projector combinations, identity multiples, repeated spectra, 1e75..1e150, 1e-150..1e-75, integers, zero), d cycling 2..6. "
             "distinct_nontrivial counts distinct (d,class,components) with >=2 non-zero components or a structured class, plus each exhaustive slot.",
        floors=dict(quick={"slot.to_matrix": 90, "slot.from_matrix": 90, "op.add": 1000, "dim.2": 100, "dim.6": 100},
                    thorough={"slot.to_matrix": 90, "slot.from_matrix": 90, "op.add": 50000}),
        assumptions=["reference: generalised Gell-Mann basis by formula in long double (harness/common/ref.h)", "NaN/Inf inputs are outside the property"],
    ),
    "C13": dict(
        harness="h_algebra", sources=ALG, level="exploration", exhaustive=True,
        variants=dict(quick=[V("asan", 1), V("opt", 1)], thorough=[V("asan", 1), V("opt", 1), V("optavx", 1)]),
        rule="all d in 2..6 and every index the factories accept: Identity(d), Projector(d,i<d), Generator(d,k<d*d), PosProjector(d,k<d), NegProjector(d,k<d), "
             "plus orthogonality/idempotence/completeness and Pos(d,k)+Neg(d,d-k) for 0<k<d; distinct_nontrivial = distinct (factory,d,index) objects judged",
        floors=dict(quick={"factory.NegProjector": 20, "factory.PosProjector": 20, "factory.Generator": 90, "factory.Projector": 20, "pos_plus_neg": 15},
                    thorough={"factory.NegProjector": 20, "pos_plus_neg": 15}),
        assumptions=["PosProjector/NegProjector reject k=d themselves, so k=d is not judged"],
    ),
    "C02": dict(
        harness="h_algebra", sources=ALG, level="exploration",
        variants=dict(quick=[V("asan", 6, 1.5), V("opt", 6, 3.0)], thorough=[V("asan", 8, 0.5), V("opt", 6), V("optavx", 2)]),
        rule="exhaustive part: all 2274 ordered generator pairs (d=2..6) for iCommutator, ACommutator and the scalar product, each also with a weighted "
             "generator against a dense partner; random part: pairs from the 11 value classes with magnitudes up to 1e+-70, plus antisymmetry/symmetry, "
             "bilinearity and Tr(A i[A,B])=0 monitors. distinct_nontrivial = distinct generator pairs + distinct random pairs whose operands are both non-trivial.",
        floors=dict(quick={"pairs.generator": 2274, "pairs.random": 5000}, thorough={"pairs.generator": 2274, "pairs.random": 200000}),
        assumptions=["reference: dense products in long double", "tolerance 256*eps*d*|A|max*|B|max"],
    ),
    "C03": dict(
        harness="h_algebra", sources=ALG, level="exploration",
        variants=dict(quick=[V("asan", 6, 1.5), V("opt", 6, 3.0)], thorough=[V("asan", 8, 0.5), V("opt", 6), V("optavx", 2)]),
        rule="random (d, diagonal H class, A class, t class): H from 10 diagonal classes (dense, zero, identity-only, fully/partially/nearly degenerate, integer, "
             "1e3..1e8, 1e-12..1e-3, single diagonal generator), t in {0, +-1e-12..1e-6, O(1), +-1..100, +-1e5..1e7, +-1e11..1e13, small integers}; monitors: direct form vs "
             "diag-phase conjugation, t=0 identity, diagonal components bitwise fixed, two-step form on an exact-size heap table, second vector on the same table, scalar product, "
             "group law. distinct_nontrivial = distinct (H,A,t) with non-trivial A.",
        floors=dict(quick={"H.fully-degenerate": 300, "H.zero": 300, "tclass.0": 500, "tclass.5": 500, "dim.2": 1000, "dim.6": 1000}, thorough={"tclass.5": 20000}),
        assumptions=["cases whose phase resolution eps*W*|t| exceeds 5% are counted (vacuous_phase_resolution) and only the exact invariants are judged on them"],
    ),
    "C06": dict(
        harness="h_algebra", sources=ALG, level="exploration",
        variants=dict(quick=[V("asan", 8, 1.5), V("opt", 6, 3.0)], thorough=[V("asan", 8, 0.5), V("opt", 6), V("optavx", 2)]),
        rule="exhaustive part: each of the 35 plane-rotation kernels x 12 special thetas x 12 special deltas (0, +-pi/2, +-pi, 2pi+x, -x, pi/4, 1e-9, 1, 3, 500.25) on a generator and a "
             "dense vector; Const: every index pair in 0..8 x 0..8; random part: angle/phase sets (all planes / single plane / real mixing) x value classes: mixing matrix vs ordered "
             "product, unitarity, RotateToB1/B0, Rotate(U)/UTransform(U)/UDaggerTransform(U) with the library's U and with Haar unitaries, invariants, both WeightedRotation overloads.",
        floors=dict(quick={"cells.kernel_x_special_angles": 5040, "const.admitted": 15, "const.rejected": 66, "haar_unitaries": 2000, "weighted_rotations": 2000},
                    thorough={"cells.kernel_x_special_angles": 5040, "haar_unitaries": 50000}),
        assumptions=["reference: R(i,i)=R(j,j)=cos(theta), R(i,j)=sin(theta)exp(-i delta), R(j,i)=-conj(R(i,j)); U = product with each later plane multiplied from the left"],
    ),
    "C11": dict(
        harness="h_algebra", sources=ALG, level="exploration",
        variants=dict(quick=[V("asan", 8, 1.5), V("opt", 6, 3.0)], thorough=[V("asan", 8, 0.5), V("opt", 6), V("optavx", 2)]),
        rule="pair order learned per dimension from the plain table (must be a bijection onto level pairs); five monitors in rotation: threshold averaging (flags and entries), "
             "LowPassFilter, AvgRampFilter (factor 1 / ramp / 0, rejection of wide ramps), interval average (entry-wise vs exact average incl. omega=0, finiteness, Evolve(buffer) vs "
             "time average), averaged GetExpectationValue/GetExpectationValueD on a solver object. A quarter of the cases come from an exactly representable family (integer levels "
             "and times) so that 'exceeds' is judged at equality; otherwise comparisons within rounding of a threshold are counted as borderline and skipped.",
        floors=dict(quick={"threshold.flagged": 1000, "threshold.kept": 1000, "threshold.exactly_at_scale": 50, "ramp.inside": 500, "ramp.zero": 500, "ramp.one": 500,
                           "ramp_wider_than_cutoff": 100, "interval.pair_judged": 1000, "interval.evolve_judged": 200, "expectation.node_form": 200, "expectation.interpolated_form": 500,
                           "cases_with_coincident_levels": 1000},
                    thorough={"threshold.exactly_at_scale": 1000, "interval.pair_judged": 20000}),
        assumptions=["time intervals with |omega*dt| so small that the documented closed form loses more than 1e-3 are skipped (counted as interval.ill_conditioned_skipped)"],
    ),
    "C12": dict(
        harness="h_algebra", sources=ALG, level="exploration",
        variants=dict(quick=[V("asan", 8, 1.5), V("opt", 6, 3.0)], thorough=[V("asan", 8, 0.5), V("opt", 6), V("optavx", 2)]),
        rule="exhaustive part: every single generator, every projector, every rank-k projector and the zero matrix for d=2..6, ordered and unordered; random part (half of it in "
             "d=3): value classes and ten structure modifiers (one vanishing off-diagonal entry, off-diagonal part scaled by 1e-2..1e-14, prescribed gaps 1e-2..1e-14, whole matrix "
             "scaled by 1e+-20..100, single/two generators, projectors, diagonal, identity multiples). Judged: finite, |MV-VL|<=1e-9|M|, |V^dag V-1|<=1e-9, ascending when requested, "
             "trace and square-sum of eigenvalues.",
        floors=dict(quick={"fixed.structured": 150, "dim.3": 5000, "dim.2": 500, "dim.6": 500, "mod.one-offdiagonal-entry-zeroed": 500,
                           "solver.closed_form_accepted(d=3)": 1000, "solver.general_solver_after_rejected_closed_form(d=3)": 1000}, thorough={"dim.3": 100000}),
        assumptions=["tolerance is absolute 1e-9 relative to |M|max: the claim is 'a valid decomposition', not last-bit accuracy"],
    ),
    "C07": dict(
        harness="h_expm", sources=["expm/main.cpp"], level="exploration",
        variants=dict(quick=[V("asan", 8, 1.2), V("opt", 8, 3)], thorough=[V("asan", 8, 0.3), V("opt", 12), V("optavx", 4, 0.3)]),
        rule="n cycles 2..6, family cycles over 15 (anti-Hermitian, Hermitian, normal, dense, upper/lower triangular, strictly upper/lower, rank one, block diagonal, diagonal+small, "
             "diagonal, real rotation, diagonal plus one off-diagonal entry anywhere, bidiagonal), 1-norm from a mixture: straddling every theta threshold (0.015, 0.254, 0.95, 2.1, 4.25*2^s), uniform in the degree 7/9 band, log-uniform 1e-8..limit "
             "(1e3 normal families, 30 Hermitian, 50 others); each judged call preceded by 0-5 exponentials of other sizes, half re-evaluated after a different prefix; reference: "
             "long double scaling+Taylor; accepted iff |err|_1 <= 256*eps*(1+s)(1+|A|_1+cond_exp)*|exp|_1 with cond_exp from Frechet derivatives (power method x n; exact on a quarter "
             "of thorough cases) and s the squarings reported by the hook; second part: UTransform(V,i*s) value, norm preservation, inversion in d=2..6.",
        floors=dict(quick={"branch.0": 50, "branch.3": 50, "branch.5": 50, "branch.7": 50, "branch.9": 50, "branch.13": 200, "squarings.0": 200, "squarings.1": 50, "squarings.2": 50, "squarings.3plus": 50,
                           "branch.9.n2": 3, "branch.13.n2": 10, "utransform.d2": 200, "reevaluated_after_other_history": 500, "judged": 3000},
                    thorough={"branch.9": 2000, "branch.9.n2": 50, "judged": 100000}),
        assumptions=["inputs with condition allowance above 1e6 or a non-representable exponential are counted and skipped", "the hook reports branch and squarings; a missing event is a harness error"],
    ),
    "C04": dict(
        harness="h_solver", sources=SOLVER, level="exploration",
        variants=dict(quick=[V("asan", 8, 0.15), V("opt", 16)], thorough=[V("asan", 8, 0.1), V("opt", 16)]),
        rule="switch setting = case mod 32 (all 2^5), stepper mode cycles over 11 (rk2, rk4, rkf45, rkck, rk8pd adaptive and fixed; msadams adaptive), d cycles 2..6; nx in 1..5, "
             "nrhos 1..3, nscalars 0..3, t_ini in {0,+-0.5,1000}, 1-2 Evolve segments, tolerances 1e-8..1e-11 random; a third of the problems at magnitude 1e-9/1e-6/1e-3/1e4 with abs_error three orders below rel_error*|y| (rel and abs distinguishable); non-constraining h_max/h_min in a quarter of the adaptive cases. Exact solutions: manufactured (trigonometric targets, non-commuting "
             "time-dependent HI, GammaRho; source defined from the target) when the source is on, commuting family with time-dependent rates otherwise; scalars likewise. Disabled terms "
             "return NaN. Online monitor: index ranges, time of every term call == time of the opening PreDerive, every enabled term called for every (node,index) per derivative "
             "evaluation, all times inside the Evolve window. distinct_nontrivial = distinct configurations.",
        floors=dict(quick={"magnitude.1e-09": 50, "magnitude.1e-06": 50, "magnitude.10000": 50, "stepper.rk2/adaptive": 20, "stepper.msadams/adaptive": 20, "stepper.rk8pd/fixed": 20, "switches.-----": 10, "switches.CNOGS": 10, "dim.2": 50, "dim.6": 50, "derivative_evaluations": 100000},
                    thorough={"stepper.rk2/adaptive": 1000, "derivative_evaluations": 5000000}),
        assumptions=["adaptive allowance 1e4*(abs+rel*|y|); fixed-step allowance 1e-5(1+|y|) (1e-4 for rk2) with step counts chosen for an a-priori error below 1e-7", "generated rates are bounded (|H|T,|Gamma|T<=3): no stiff problems"],
    ),
    "C17": dict(
        harness="h_solver", sources=SOLVER, level="exploration",
        variants=dict(quick=[V("asan", 8, 0.9), V("opt", 8, 3)], thorough=[V("asan", 8, 0.3), V("opt", 16)]),
        rule="nx = 2..130 exhaustively, then random nx up to 5000; for each nx a linear grid (ends over 20 decades, incl. a=0 and integers), a logarithmic grid (a>=1e-10, ratio up to 1e10) and a "
             "user grid (uniform, geometric, clustered, huge gaps, log-random steps). Grid predicates: node count, finite, non-decreasing, first node, last node within the ulp allowance, every "
             "node against the documented formula; user grid stored bitwise, unsorted/wrong-size rejected without change. Lookup: every node, node+-1ulp, midpoints, random points per "
             "interval, ten outside points incl. +-inf: bracket predicate / last interval for x_last / exception outside. Every object is then re-initialised once with another node count "
             "(fewer 60% / more 30% / same 10%) and everything is repeated on it.",
        floors=dict(quick={"nx.exhaustive_2_130": 129, "nx_minus_1.other": 200, "grid.linear": 300, "grid.log": 300, "grid.user": 300, "reinit.fewer_nodes": 500, "reinit.more_nodes": 200, "lookup.inside": 200000, "lookup.outside": 5000},
                    thorough={"nx.exhaustive_2_130": 129, "lookup.inside": 5000000}),
        assumptions=["logarithmic grids use a>=1e-10 because the library documents a refusal below that"],
    ),
    "C05": dict(
        harness="h_solver", sources=SOLVER, level="exploration",
        variants=dict(quick=[V("asan", 8, 0.9), V("opt", 8, 3)], thorough=[V("asan", 8, 0.2), V("opt", 16)]),
        rule="each case: d cycles 2..6, nx 2..6, nrhos 1..3, grid linear / logarithmic / user supplied with clustered nodes, H0(x,irho) diagonal and different for every x and irho, "
             "0-3 history operations (evolve without numerics over up to 1e3, evolve with numerics, re-initialise with another start time, move) producing tau=t-t_ini; then: node form at "
             "every node (+ averaging overload with scale 1e300), all four GetExpectationValueD overloads and GetIntermediateState on every node, midpoint, node+-1ulp and a random point "
             "per interval against the long-double Schroedinger-picture trace with convex weights, agreement with the node form at nodes, and 12 points outside the range (1 ulp, near, "
             "far, 1e6 widths, +-inf, +-DBL_MAX, below and above) x 5 entry points which must throw; a second solver of another dimension is queried in between on the same thread.",
        floors=dict(quick={"query.node_form": 1000, "query.interpolated": 10000, "query.outside_below": 5000, "query.outside_above": 5000, "query.node_agreement": 1000, "grid.log": 50, "grid.user-clustered": 50, "grid.linear": 50},
                    thorough={"query.interpolated": 300000}),
        assumptions=["cases whose phase resolution eps*W*|tau| exceeds 1e-3 are not judged on values (only on exceptions)"],
    ),
    "C10": dict(
        harness="h_solver", sources=SOLVER, level="exploration",
        variants=dict(quick=[V("asan", 8, 0.25), V("opt", 16)], thorough=[V("asan", 8, 0.15), V("opt", 16)]),
        rule="random histories of 3-12 operations over {Evolve(dt) with dt=0, 1e-6..1e-2 or 0.05..0.8; toggle one of the five switches; Set_AnyNumerics; change stepper/adaptive flag/tolerances/h/"
             "h_max/nsteps; move-construct (source destroyed at once); move-assign onto an empty or an already used solver; ini() with other sizes and start time}; two thirds on the commuting "
             "family with constant rates and sources (exact per-segment map for any subset of terms, carried from segment to segment), one third on the manufactured non-commuting family "
             "(sources stay on). Oracles: clock, composed exact maps, history-free twin per segment, bitwise freeze and PreDerive(t_new) without numerics, estate/state aliasing and "
             "binding to the system array after every operation, clock/sizes after ini, nothing but Evolve moves state or clock. distinct_nontrivial = distinct histories.",
        floors=dict(quick={"evolve.segments": 500, "evolve.zero_length": 50, "evolve.without_numerics": 50, "op.move_construct": 50, "op.move_assign_used": 20, "op.move_assign_empty": 20, "op.reinit": 50,
                           "op.toggle": 100, "op.any_numerics": 20, "twin_comparisons": 400, "hook.rebind_skipped": 1000, "hook.realias": 400},
                    thorough={"evolve.segments": 20000, "twin_comparisons": 15000}),
        assumptions=["integration allowance per numeric segment 2e3*tol*(1+|y|) (fixed step: 2e-6, rk2 1e-5), accumulated over the history and multiplied by 4 for the bounded growth of the generated problems"],
    ),
    "C14": dict(
        harness="h_life", sources=LIFE, level="exploration", exhaustive=True,
        variants=dict(quick=[V("asan", 8), V("opt", 4)], thorough=[V("asan", 8), V("opt", 4), V("align", 4)]),
        rule="exhaustive over the stated window: 52 binary entry points (4 sum and 2 difference overloads, scalar product both ways, both commutators, 4+4 element-wise overloads, += / -= "
             "with vectors and with every proxy kind, the same under guarantee<NoAlias> (which does not assert equal sizes), 9 expressions whose operands are expressions, Evolve by an operator in four statement forms, Rotate(matrix)) x all 20 ordered pairs d1!=d2 x {library owned, externally backed on "
             "exact-size heap blocks}; constructors/factories with dimension 1,7,8; factory indices d..d*d+2; list lengths 1..64 except supported squares; all n1 x n2 matrices up to 7x7 "
             "except supported squares; size-changing assignments to externally backed targets. Each must throw, operands bitwise unchanged, ASan silent. distinct_nontrivial = distinct cells.",
        floors=dict(quick={"ctor_groups": 9, "storage.external": 850, "storage.owned": 850}, thorough={"ctor_groups": 9}),
        assumptions=["ASan red zones adjoin the exact-size operand blocks, so a read past the smaller operand is reported", "one process per cell is not needed: the driver restarts a shard after a sanitizer abort"],
    ),
    "C16": dict(
        harness="h_life", sources=LIFE, level="fault_enumeration", exhaustive=True,
        variants=dict(quick=[V("asan", 8)], thorough=[V("asan", 8), V("opt", 4)]),
        rule="for every operation of an 83-entry catalogue (constructors, factories, copy/move/proxy assignments onto empty / other-size / same-size targets, aliasing assignments that go through a "
             "temporary, element-wise operations with a user functor that allocates for every element (construct / assign / compound-assign, lvalue and rvalue operands), chained expressions, rotations, transforms, eigen system, ...) x 6 (target dim, operand dim) pairs x {empty cache, cache primed with a few blocks of both dimensions, cache completely full}: a counting "
             "pass finds the n allocation attempts (operator new and new[]) inside the call, then for k=1..n the same pre-state is rebuilt and exactly the k-th attempt throws std::bad_alloc. "
             "Judged after each injection: exception type, ownership-flag invariants (hook; incl. no non-owner still referring to an owned or cached block), other vectors bitwise unchanged, every vector reassigned and destroyed, ledger errors, no array "
             "block live after the cache is drained, ASan. distinct_nontrivial = distinct (operation, dims, cache state, k).",
        floors=dict(quick={"injections": 3000, "allocation_points": 3000, "op.construct-from-elementwise-allocating-functor(rvalue operand)": 18, "op.T=elementwise-allocating-functor(rvalue operand, resizing)": 18}, thorough={"injections": 3000}),
        assumptions=["only operator new/new[] failures are injected (the property is about std::bad_alloc); GSL's own malloc failures are outside it", "allocations by the harness inside the window (the unique_ptr's object) are extra injection points and harmless"],
    ),
    "C08": dict(
        harness="h_life", sources=LIFE, level="exploration",
        variants=dict(quick=[V("asan", 8, 1.2), V("opt", 8, 3)], thorough=[V("asan", 8, 0.3), V("opt", 8), V("optavx", 4, 0.5)]),
        rule="random histories of 6-45 operations over 4-8 vector slots and 2-3 user buffers (exact-size heap blocks, some deliberately misaligned), dimensions drawn from three values in 2..6 per "
             "history: construct (default, sized, list, external, copy, move, from an expression with lvalue/rvalue operands), destroy, copy/move assignment between every pair of slot kinds, "
             "T (=|+=|-=) expression over 19 expression shapes, SetBackingStore, element writes, ==, compound assignment; moved-from and consumed operands become 'unspecified' and then only "
             "receive the four follow-ups the property lists (assign to, compare, move from again, destroy). After every step: each specified vector has the model's dimension and bitwise the "
             "model's values (so an operation on one vector that changes another is seen), external vectors are bound to their buffer, owned storage is disjoint and outside user buffers, "
             "ownership-flag invariants through the hook, user buffers equal their modelled image, documented exceptions exactly when the model says; ledger empty at the end.",
        floors=dict(quick={"steps": 100000, "consumed_operands": 3000, "op.assign_to_unspecified": 1000, "op.followup_same_size_assignment": 1000, "op.move_from_unspecified_again": 200, "op.destroy_unspecified": 200, "op.compare_unspecified": 150,
                           "op.set_backing_store": 1000, "op.move_assign": 2000, "op.copy_assign_rejected": 100},
                    thorough={"steps": 3000000}),
        assumptions=["where the property leaves an outcome open (is a moved-from externally backed vector still bound?) the monitor reads the answer (Dim(), address of element 0) instead of prescribing one"],
    ),
    "C15": dict(
        harness="h_life", sources=LIFE, level="exploration",
        variants=dict(quick=[V("asan", 12, 1.5), V("optavx", 4, 3)], thorough=[V("asan", 12, 0.5), V("optavx", 4), V("opt", 4), V("align", 4, 0.5)]),
        rule="the C08 interpreter with the wide catalogue: histories of 20-120 operations adding rotations (both forms), RotateToB0/B1, UTransform (both), UDaggerTransform, WeightedRotation (both), "
             "Real/Imag/Transpose, conversions to and from GSL matrices and component lists, GetEigenSystem, factories, evolution tables and both filters on exact-size heap tables, stream output, "
             "16 kinds of calls that end in a library exception, and solver objects (construct, grid, evolve, move-construct, move-assign onto a used solver, query incl. rejected queries, re-init, "
             "destroy). Oracles are the generic ones only: ASan/UBSan silence, ledger invariants after every step, ownership-flag invariants, ledger empty after final destruction and cache drain, "
             "LeakSanitizer at exit (GSL's malloc'ed objects).",
        floors=dict(quick={"steps": 50000, "op.producer": 5000, "op.inplace": 1000, "op.tables": 500, "op.throwing": 1000, "op.solver": 1000, "exceptions.library": 800, "exceptions.solver": 2000, "exceptions.solver.evolve_gave_up": 150, "op.cache_overflow_burst": 500, "op.aligned_factories": 500},
                    thorough={"steps": 2000000}),
        assumptions=["red-zone sanitizers miss non-adjacent overflows; user storage is therefore exact-size and the model compares every buffer with its image after each step"],
    ),
    "C19": dict(
        harness="h_cache", sources=["cache/main.cpp", "cache/cache_shared.cpp", "cache/cache_tls.cpp"], with_lib=False, level="exploration", exhaustive=True,
        variants=dict(quick=[V("plain", 16)], thorough=[V("plain", 16)]),
        rule="shared variant (Cache.h compiled without SQUIDS_THREAD_LOCAL): for capacity 1..3, prefill 0 or full, every unordered pair of programs over {insert,fetch} with up to 3 (thorough 4) "
             "operations per thread and every triple with up to 2: depth-first enumeration of the schedules at hook granularity (every atomic load/CAS, the payload write and the payload read) with "
             "at most 2 pre-emptions for three threads, 3 for two threads and 4 for the longest two-thread programs on small empty caches (thorough: one more each, searches cut short after 4000 "
             "executions per configuration and counted as cut short; quick exhausts every configuration within its bound); values are unique ids, judged by conservation over the client-side history plus the final drain. Plus random longer programs under PCT schedules and "
             "8-thread real-thread stress runs with random yields at the hooks; plus 24 (96) head-recurrence hunts: a victim stalled right before the compare-and-swap of its pop, two adaptive helpers that bring the same "
             "record back on top with another successor and then cycle fetch+insert up to 70000 (140000) times watching (hook) for the victim's head word {version,index} to recur - if it does the victim is resumed and the history judged. Both variants: all insert/fetch sequences up to length 12 (14) for capacity 1..4 against a bounded LIFO model. "
             "distinct_nontrivial = distinct configurations; distinct schedules and final configurations are reported as counters.",
        floors=dict(quick={"executions.enumerated": 200000, "distinct_schedules": 100000, "sequential.shared": 30000, "sequential.thread_local": 30000, "executions.pct": 5000, "operations.stress": 5000000, "configs.exhausted_within_bound": 800, "hunt.same_record_on_top_with_another_successor": 12},
                    thorough={"executions.enumerated": 3000000}),
        assumptions=["schedules are enumerated at hook granularity on x86-TSO; weaker-memory reorderings are not explored", "a recurrence of the 32-bit version during one stall (2^32 list updates) is beyond any run and is not judged; the hunt covers version fields up to 17 bits", "data races in the C++ memory-model sense on the `next` fields are not judged (the algorithm validates optimistic reads by CAS)"],
    ),
    "C18": dict(
        harness="h_threads", sources=["threads/main.cpp", "common/ledger.cpp"], level="exploration",
        variants=dict(quick=[V("tsan", 6), V("asan", 4)], thorough=[V("tsan", 12), V("asan", 8), V("opt", 4)]),
        rule="each round (5 quick / 50 thorough per build, sharded) runs four families together with 2-16 threads per family mix: algebra workers on private vectors (14 operation kinds incl. eigen "
             "systems and matrix exponentials, several dimensions), producer/consumer pairs handing 300 vectors each through a mutex-protected queue (consumers resize and destroy them), query "
             "workers calling every GetExpectationValue/GetExpectationValueD/GetIntermediateState overload on two shared no-longer-evolving solvers of dimension 3 and 5, and a spawner of "
             "short-lived threads; random yields/sleeps at hand-over points. Oracles: ThreadSanitizer reports with a squids:: frame (de-duplicated by stack tops), bitwise equality of every result "
             "digest with the sequential run on the main thread (matrix exponentials within 1e-9), ledger: cross-thread releases observed, no array block live after all workers ended.",
        floors=dict(quick={"workers.algebra": 100, "workers.query": 50, "workers.short_lived": 200, "blocks_allocated_on_one_thread_released_on_another": 1000, "worker_threads_ended": 500},
                    thorough={"workers.algebra": 200}),
        assumptions=["TSan sees only the interleavings that occur and only instrumented code (GSL internals are invisible; the library does not share GSL objects across threads)"],
        timeout=dict(quick=1500, thorough=7200),
    ),
    "C09": dict(
        harness="h_life", sources=LIFE, level="exploration", exhaustive=True,
        variants=dict(quick=[V("asan", 8, 1.5), V("opt", 8, 3), V("optavx", 4, 3)], thorough=[V("asan", 12, 0.25), V("opt", 8), V("optavx", 8), V("align", 8, 0.5)]),
        rule="the full cross product of the discrete axes is enumerated: 28 expression shapes (4 sum, 4 difference, 2 negation, 4 scalar-product, 3 commutator, 3 anticommutator, 2 Evolve(op,t), "
             "2 Evolve(table), 4 user element-wise: every combination of operand value categories, also those for which the library has no dedicated overload) x {=,+=,-=,construct} x target {empty, owned same d, owned other d, external same d, external other d} "
             "x alias {none, v is a, v is b, v is both, v and a different objects on one user buffer} x guarantee set {none, NoAlias, EqualSizes, both, +AlignedStorage} x d=2..6 = 70000 cells; "
             "inadmissible cells and cells whose guarantee would be false (alignment measured on the actual addresses) are skipped and counted; values random per cell (quick 2 draws; asan 1), scalar/time from {2, 1, -1, 0, random}, 10% equal-valued operands, 5% zero operand. "
             "Oracle: the property's own definition - op evaluated into a fresh temporary from fresh copies, then =,+=,-= applied component-wise; NaN pre-fill for plain assignment; documented "
             "exceptions exactly and with the target untouched; operands unchanged unless consumed; external targets still bound; zero allocations in the documented no-allocation cases.",
        floors=dict(quick={"scalar.one": 3000, "scalar.minus_one": 2000, "scalar.zero": 2000, "no_allocation_cases": 3000, "documented_exceptions": 3000, "guarantee.7": 300, "alias.v is a and b": 500, "alias.v and a are different objects on one user buffer": 500,
                           "target.external other d": 1000, "shape.a.Evolve(table)": 500, "form.SU_vector v(": 500},
                    thorough={"no_allocation_cases": 100000}),
        assumptions=["correctness of the operations themselves is C01-C03's business; here only 'fused == naive' is judged, with 8 eps(|v_old|+|tmp|) for FMA contraction"],
    ),
}


# ---- texts for MANIFEST.json (tools/gen_manifest.py)
NOTES = ("Runtime monitoring only: every verdict comes from an oracle observing executions of the real library compiled from /repo's working tree "
         "(gcc ASan+UBSan, -O3, TSan, clang alignment builds). Exit 0 held on what was explored / 1 VIOLATION / 2 inconclusive. "
         "known_findings.json lists repaired defects (status fixed; suppress nothing) and recorded ones (status known).")
NOT_APPLICABLE = {}
ENGINE_TEXT = {
    "h_algebra": "C++ harness: reference-model monitors for the SU_vector algebra (long double dense matrices, Gell-Mann basis by formula), run under ASan+UBSan and -O3",
    "h_expm": "C++ harness: matrix exponential against a long double Taylor reference with Frechet-derivative condition numbers and Pade-branch events from a hook",
    "h_solver": "C++ harness: SQuIDS subclass with manufactured / commuting exact solutions, online callback monitor, history interpreter with history-free twin",
}
_T = {
    "C01": ("Reference-model monitor over sampled inputs plus an exhaustive pass over every slot of the generated basis-change kernels; it reports 'held on the cases listed in the evidence', not a proof over all reals.",
            "Trusted: harness reference maths (ref.h, self-checked at start-up), IEEE double arithmetic of the host. Tolerance 8*eps*d*|c|max; exact where the statement says exact.",
            "runtime monitoring: reference-model oracle (independent Gell-Mann basis) over exhaustive kernel slots and sampled value classes, under ASan/UBSan and -O3"),
    "C02": ("All 2274 ordered generator pairs (every structure constant) are executed and judged, plus sampled dense/structured pairs and the algebraic identities; sampled, not proved, for non-basis inputs.",
            "Trusted: ref.h products in long double. Tolerance 256*eps*d*|A||B|; scalar product 64*eps*sum|terms|.",
            "runtime monitoring: reference-model oracle, exhaustive over generator pairs + sampled pairs, symmetry/bilinearity monitors"),
    "C03": ("Sampled (H,A,t) across degenerate/zero spectra and 24 decades of t against diag-phase conjugation in long double; invariants (t=0, diagonal components, group law, scalar products) judged on every case.",
            "Trusted: long double sin/cos of libm for the reference phases; tolerance 64*eps*(1+W|t|)|A| with W the sum of |diagonal components|.",
            "runtime monitoring: reference-model oracle + invariant monitors; exact-size heap tables so ASan sees table overruns"),
    "C04": ("Executes the real solver on thousands of configurations covering all 32 switch settings x 11 stepper modes x sizes with problems whose exact solution is known, and watches every callback online. Assurance is 'no deviation on the explored configurations'.",
            "Trusted: GSL's steppers converge at their order for the smooth, non-stiff generated problems; allowance 2e3*tol (adaptive) / 2e-6 (fixed) was set >=25x above the worst deviation observed on the unchanged tree.",
            "runtime monitoring: method of manufactured solutions + commuting closed forms as oracle, online checker of the callback event log, NaN poison on disabled terms"),
    "C05": ("Sampled grids/histories/queries against a long double Schroedinger-picture trace with convex interpolation; every out-of-range query class (1 ulp to infinity, below and above, 5 entry points) must throw.",
            "Trusted: ref.h; the stored state is read back from the object, so only the query path is judged here (evolution is C04/C10).",
            "runtime monitoring: reference-model oracle over query sweeps incl. node +-1ulp and outside points; histories set t-t_ini"),
    "C06": ("Each of the 35 generated rotation kernels is executed on a 12x12 grid of special angles and on random ones; all matrix entry points are compared with the reference on library-made and Haar unitaries; Const index window 0..8 x 0..8 exhaustive.",
            "Trusted: ref.h; convention R(i,j)=sin(theta)exp(-i delta), R(j,i)=-conj, later planes multiplied from the left (verified against the unchanged tree).",
            "runtime monitoring: reference-model oracle, exhaustive kernel x special-angle cells + sampled parameter sets, cross-entry-point agreement"),
    "C07": ("Sampled matrices from 11 families across every norm band and size, each after a random call history on the thread, judged against a long double reference with a run-time condition number; coverage floors require every Pade branch and squaring count to have been observed (hook events).",
            "Trusted: 40-term long double Taylor reference; condition estimate by power iteration on the Frechet derivative (x n safety), exact on a quarter of thorough cases. K=256 is ~90x above the worst ratio on the repaired tree.",
            "runtime monitoring: reference oracle with Frechet-derivative conditioning, branch/squaring events from a hook as coverage floor, call-history workload"),
    "C10": ("Random operation histories are executed on the real solver; after every operation the clock, the state (composed exact maps and a history-free twin object), the view aliasing and the bitwise freeze are checked. Held on the histories explored.",
            "Trusted: exact per-segment maps of the commuting family; twin object built through the same public API; allowance accumulates 2e3*tol per numeric segment x4.",
            "runtime monitoring: history interpreter with shadow model, history-free twin oracle, bitwise freeze check, hook events proving the skipped-rebind and re-alias paths ran; ASan for stale pointers after moves"),
    "C11": ("Sampled operators/times/scales in all dimensions; the pair order is learned from the plain table; an exactly representable sub-family lets the strict 'exceeds' be judged at equality; interval averages compared entry-wise with the exact average incl. omega=0.",
            "Trusted: ref.h and libm in long double; comparisons within rounding of a threshold are skipped (counted), never judged.",
            "runtime monitoring: learned pair map + predicate oracles on table entries/flags, exact-average oracle, exception/untouched-buffer oracle"),
    "C12": ("Every structured input class that breaks closed forms is enumerated (all generators, projectors, zero) and sampled (near-degenerate, scaled, partially vanishing); each result is checked as a decomposition (finite, residual, unitarity, order, trace invariants).",
            "Trusted: ref.h products; tolerance 1e-9 relative to |M|max because the claim is validity, not last-bit accuracy.",
            "runtime monitoring: decomposition-validity oracle over exhaustive structured inputs and sampled perturbations; solver-choice events from a hook"),
    "C13": ("The whole (finite) space is enumerated: 145 factory objects plus the derived identities.",
            "Trusted: ref.h basis. PosProjector/NegProjector reject k=d themselves, so k=d is not judged.",
            "runtime monitoring: exhaustive enumeration against reference 0/1 matrices"),
    "C17": ("nx=2..130 exhaustively and random nx to 5000, three grid kinds each, with every node, node+-1ulp, midpoint and random interior points plus ten outside points queried.",
            "Trusted: long double evaluation of the documented grid formula; ulp allowance 4 (linear) / 8+4|log| (log).",
            "runtime monitoring: predicate oracle on grids and on every lookup result (bracketing, last interval, exception outside)"),
}
for _k, (_lt, _ln, _te) in _T.items():
    if _k in PROPS:
        PROPS[_k]["level_text"] = _lt
        PROPS[_k]["level_note"] = _ln
        PROPS[_k]["technique"] = _te
        PROPS[_k]["design_ref"] = "DESIGN.md section 4-7 (" + _k + ")"
_T2 = {
    "C08": ("Random operation histories on the real class with a shadow ownership model; after every step all live vectors are compared bitwise with the model, so the realistic failure (an operation on one vector changing another) is observed when it happens; ASan sees stale pointers.",
            "Trusted: the shadow model (harness/life/interp.cpp). Where the property leaves the outcome open the monitor reads it. Leak freedom is not judged here (C15).",
            "runtime monitoring: history interpreter with shadow ownership model, 'everyone else unchanged' check, ownership-flag invariants via hook, allocation ledger, ASan/UBSan"),
    "C14": ("The stated window is enumerated completely (1440 binary cells + all constructor/factory arguments); each cell must throw with operands bitwise intact, and operands on exact-size heap blocks make any read past the smaller operand an ASan report.",
            "Trusted: ASan red zones adjoining exact-size blocks; clang/gcc UBSan bounds check for the per-dimension cache array.",
            "runtime monitoring: exhaustive must-throw + operands-unchanged oracle under ASan/UBSan with exact-size operand blocks"),
    "C15": ("Long random histories over the widest catalogue, judged only by generic oracles: sanitizer silence, ledger invariants after each step, no live array block after everything is destroyed and the cache drained, LeakSanitizer at exit.",
            "Trusted: ASan/UBSan/LSan; the ledger tracks every operator new[] block (all library storage is array-form); per-thread scratch vectors of the interpolating queries are created before baselines are taken.",
            "runtime monitoring: sanitizers (ASan, UBSan, LSan, clang alignment/unreachable) + allocation ledger over random histories incl. throwing calls and solver objects"),
    "C16": ("Systematic fault injection: for every catalogue operation, dims pair and cache state, each allocation attempt inside the call is failed in turn and the post-state is examined and exercised (reassign, destroy, drain).",
            "Trusted: the interposed operator new/new[] sees every allocation of the process; GSL's internal malloc is not failed (the property is about std::bad_alloc).",
            "fault enumeration by allocation count-down in interposed operator new, ledger + ownership-flag invariants + ASan after each injected fault"),
}
for _k, (_lt, _ln, _te) in _T2.items():
    if _k in PROPS:
        PROPS[_k]["level_text"] = _lt; PROPS[_k]["level_note"] = _ln; PROPS[_k]["technique"] = _te
        PROPS[_k]["design_ref"] = "DESIGN.md section 6 (" + _k + ")"
ENGINE_TEXT["h_life"] = "C++ harness linked with an allocation ledger / fault injector interposed on operator new/delete: history interpreter with shadow ownership model (C08, C15), exhaustive mismatch table (C14), fault enumeration (C16), fused-vs-naive differential (C09)"

_T3 = {
    "C19": ("Bounded-exhaustive schedule enumeration on the real cache code under a cooperative scheduler (all schedules with <=2/3 pre-emptions for all 2-3 thread programs up to 3/4 operations, capacities 1..4), randomised PCT schedules for longer programs, hardware stress, and exhaustive sequential histories for both variants.",
            "Trusted: the scheduler hands control only at the hook points, which bracket every shared access of the algorithm; x86-TSO; unique ids make the history unambiguous.",
            "runtime monitoring: deterministic scheduler over real threads (DFS with pre-emption bound + PCT), conservation checker over unique-id histories, bounded-LIFO reference model"),
}
for _k, (_lt, _ln, _te) in _T3.items():
    if _k in PROPS:
        PROPS[_k]["level_text"] = _lt; PROPS[_k]["level_note"] = _ln; PROPS[_k]["technique"] = _te
        PROPS[_k]["design_ref"] = "DESIGN.md section 7 (" + _k + ")"
ENGINE_TEXT["h_cache"] = "C++ harness: cooperative deterministic scheduler driving real threads through hook points of Cache.h (shared variant), conservation checker; sequential LIFO model for both variants"

_T4 = {
    "C18": ("Stress workloads of the four sharing patterns the property names, run under ThreadSanitizer and (separately) ASan with the ledger; results are compared bitwise with a sequential run. Held on the interleavings that occurred in the run.",
            "Trusted: TSan's happens-before analysis on instrumented code; the harness' own synchronisation (mutex queue, atomics).",
            "runtime monitoring: ThreadSanitizer + sequential-result oracle (bitwise) + allocation ledger for cross-thread release and thread-exit storage"),
}
for _k, (_lt, _ln, _te) in _T4.items():
    if _k in PROPS:
        PROPS[_k]["level_text"] = _lt; PROPS[_k]["level_note"] = _ln; PROPS[_k]["technique"] = _te
        PROPS[_k]["design_ref"] = "DESIGN.md section 7 (" + _k + ")"
ENGINE_TEXT["h_threads"] = "C++ harness: multi-threaded workloads (private algebra, hand-over queue, shared const solver, thread churn) under TSan / ASan with the allocation ledger and a sequential-result oracle"

_T5 = {
    "C09": ("Every admissible cell of the six-axis shape matrix is executed (the discrete space is enumerated completely, values are sampled) and compared with the property's own definition of the naive evaluation; builds include -O3, AVX2/FMA and clang's alignment-assumption check so that a false or mishandled guarantee is observed.",
            "Trusted: the harness' naive evaluation (component loops for element-wise operations, the library's own un-fused kernel on fresh copies for commutators and evolution).",
            "runtime monitoring: differential oracle fused-vs-naive over an enumerated shape matrix, under ASan/UBSan, -O3, AVX2/FMA and clang -fsanitize=alignment; allocation ledger for the no-allocation cases"),
}
for _k, (_lt, _ln, _te) in _T5.items():
    if _k in PROPS:
        PROPS[_k]["level_text"] = _lt; PROPS[_k]["level_note"] = _ln; PROPS[_k]["technique"] = _te
        PROPS[_k]["design_ref"] = "DESIGN.md section 6 (" + _k + ")"
