"""Per-property configuration of the checks: harness, build variants, shards, coverage floors."""

def V(variant, shards, scale=1.0, env=None, args=()):
    return dict(variant=variant, shards=shards, scale=scale, env=env, args=list(args))

ALG = ["algebra/main.cpp", "algebra/c01.cpp", "algebra/c13.cpp", "algebra/stubs.cpp"]

PROPS = {
    "C01": dict(
        harness="h_algebra", sources=ALG, level="exploration",
        variants=dict(quick=[V("asan", 6, 0.5), V("opt", 4)], thorough=[V("asan", 8, 0.5), V("opt", 6), V("optavx", 2)]),
        rule="exhaustive part: every unit generator -> matrix and every matrix unit -> vector for d=2..6 (each slot of the ten generated "
             "basis-change kernels); random part: component vectors / Hermitian matrices drawn from 11 value classes (dense, sparse, single generator, "
             "diagonal, projector combinations, identity multiples, repeated spectra, 1e75..1e150, 1e-150..1e-75, integers, zero), d cycling 2..6. "
             "distinct_nontrivial counts distinct (d,class,components) with >=2 non-zero components or a structured class, plus each exhaustive slot.",
        floors=dict(quick={"slot.to_matrix": 90, "slot.from_matrix": 90, "op.add": 1000, "dim.2": 100, "dim.6": 100},
                    thorough={"slot.to_matrix": 90, "slot.from_matrix": 90, "op.add": 50000}),
        assumptions=["reference: generalised Gell-Mann basis by formula in long double (harness/common/ref.h)", "NaN/Inf inputs are outside the property"],
    ),
    "C13": dict(
        harness="h_algebra", sources=ALG, level="exploration", exhaustive=True,
        variants=dict(quick=[V("asan", 1), V("opt", 1)], thorough=[V("asan", 1), V("opt", 1), V("optavx", 1)]),
        rule="all d in 2..6 and every index the factories accept: Identity(d), Projector(d,i<d), Generator(d,k<d*d), PosProjector(d,k<d), NegProjector(d,k<d), "
             "plus orthogonality/idempotence/completeness and Pos(d,k)+Neg(d,d-k) for 0<k<d; distinct_nontrivial = distinct (factory,d,index) objects judged",
        floors=dict(quick={"factory.NegProjector": 20, "factory.PosProjector": 20, "factory.Generator": 90, "factory.Projector": 20, "pos_plus_neg": 15},
                    thorough={"factory.NegProjector": 20, "pos_plus_neg": 15}),
        assumptions=["PosProjector/NegProjector reject k=d themselves, so k=d is not judged"],
    ),
}
